#!/usr/bin/env python3
"""Merges the seeded_results.json / reverts_results.json written by sharded snapshot runs
(`vp run --with-repo ... selftest/run_seeded.py --only <PROP>`) into /verif/selftest.

  selftest/merge_results.py <run dir>:<PROP,PROP,...|REVERTS> ...
"""
import json
import os
import sys

VERIF = os.path.dirname(os.path.dirname(os.path.abspath(__file__)))


def main():
    out_path = os.path.join(VERIF, "selftest", "seeded_results.json")
    out = json.load(open(out_path))
    live = {d for d in os.listdir(os.path.join(VERIF, "seeded"))
            if os.path.exists(os.path.join(VERIF, "seeded", d, "patch.diff"))}
    out = {k: v for k, v in out.items() if k in live}
    for arg in sys.argv[1:]:
        run, props = arg.split(":")
        props = props.split(",")
        src = json.load(open(os.path.join(run, "selftest", "seeded_results.json")))
        n = 0
        for k, v in src.items():
            if k.split("-")[0] in props and k in live:
                out[k] = v
                n += 1
        print(run, props, n)
        if "REVERTS" in props:
            rp = os.path.join(run, "selftest", "reverts_results.json")
            if os.path.exists(rp):
                with open(os.path.join(VERIF, "selftest", "reverts_results.json"), "w") as f:
                    json.dump(json.load(open(rp)), f, indent=1, sort_keys=True)
    with open(out_path, "w") as f:
        json.dump(out, f, indent=1, sort_keys=True)
    missing = sorted(live - set(out))
    bad = sorted(k for k, v in out.items()
                 if v.get("checks", {}).get(k.split("-")[0], {}).get("exit") != 1)
    print("live", len(live), "recorded", len(out), "missing", missing, "not caught", bad)


if __name__ == "__main__":
    main()
