#!/usr/bin/env python3
"""Collects the as-delivered results of round 10 from the snapshot shards (vp runs 39-45) into
selftest/seeded_results_round10_first_run.json, merges them into seeded_results.json and prints
the DESIGN table.  Changes whose shard had not finished are recorded as 'not run'."""
import json, os, glob
V = os.path.dirname(os.path.dirname(os.path.abspath(__file__)))
ids = sorted(d for d in os.listdir(V + "/seeded")
             if os.path.exists(V + "/seeded/" + d + "/.round")
             and open(V + "/seeded/" + d + "/.round").read().strip() == "10")
first = {}
for n in range(39, 46):
    p = "/root/.vp/runs/%d/verif/selftest/seeded_results.json" % n
    if not os.path.exists(p):
        continue
    r = json.load(open(p))
    for i in ids:
        prop = i.split("-")[0]
        if i in r and prop in r[i].get("checks", {}) and r[i]["checks"][prop].get("wall_s") is not None:
            # only results produced by this shard (the committed file has no round-10 entries)
            first[i] = r[i]
# changes run locally against /repo (apply, check, undo) after the shards had timed out
loc = json.load(open(V + "/selftest/seeded_results.json"))
for i in ids:
    prop = i.split("-")[0]
    if i not in first and i in loc and prop in loc[i].get("checks", {}):
        first[i] = loc[i]
json.dump(first, open(V + "/selftest/seeded_results_round10_first_run.json", "w"), indent=1, sort_keys=True)
allr = json.load(open(V + "/selftest/seeded_results.json"))
allr.update(first)
json.dump(allr, open(V + "/selftest/seeded_results.json", "w"), indent=1, sort_keys=True)
for i in ids:
    prop = i.split("-")[0]
    c = first.get(i, {}).get("checks", {}).get(prop)
    st = "not run before the session ended" if c is None else ("caught" if c["exit"] == 1 else ("MISSED" if c["exit"] == 0 else "inconclusive (exit %s)" % c["exit"]))
    sig = ", ".join(sorted(set(c["signatures"]))[:2]) if c else ""
    print("| %s | %s | %s |" % (i, st, ("`" + sig + "`") if sig else ""))
# refresh the table in DESIGN.md
rows = []
for i in ids:
    prop = i.split("-")[0]
    c = first.get(i, {}).get("checks", {}).get(prop)
    st = "not run before the session ended" if c is None else ("caught" if c["exit"] == 1 else ("MISSED" if c["exit"] == 0 else "inconclusive (exit %s)" % c["exit"]))
    sig = ", ".join(sorted(set(c["signatures"]))[:2]) if c else ""
    rows.append("| %s | %s | %s |" % (i, st, ("`" + sig + "`") if sig else ""))
d = open(V + "/DESIGN.md").read()
a, b = "<!-- ROUND10-TABLE-BEGIN -->", "<!-- ROUND10-TABLE-END -->"
pre, rest = d.split(a, 1)
_, post = rest.split(b, 1)
n_c = sum(1 for r_ in rows if "| caught |" in r_); n_m = sum(1 for r_ in rows if "MISSED" in r_)
tbl = "\n| change | as delivered | signatures |\n|---|---|---|\n" + "\n".join(rows) + "\n\nReported so far: %d caught, %d missed, %d not run.\n" % (n_c, n_m, len(rows) - n_c - n_m)
open(V + "/DESIGN.md", "w").write(pre + a + tbl + b + post)
