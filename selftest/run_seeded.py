#!/usr/bin/env python3
"""Runs the registered checks against the seeded changes in /verif/seeded.

For each /verif/seeded/<PROP>-<name>/patch.diff: apply it to /repo's working tree
(git -C /repo apply), run `./check <PROP> --tier <tier>` (and any extra checks given with
--also), record exit code + reported signatures, and undo it straight away
(git -C /repo checkout -- .).  Writes selftest/seeded_results.json.

  selftest/run_seeded.py [--only C19] [--marked <round>] [--tier quick] [--also C01,C03] [--revert <commit>]
"""
import json
import os
import re
import subprocess
import sys
import time

VERIF = os.path.dirname(os.path.dirname(os.path.abspath(__file__)))
REPO = os.environ.get("VERIF_REPO", "/repo")


def sh(cmd, **kw):
    return subprocess.run(cmd, stdout=subprocess.PIPE, stderr=subprocess.STDOUT, text=True, **kw)


def clean():
    sh(["git", "-C", REPO, "checkout", "--", "."])
    st = sh(["git", "-C", REPO, "status", "--short", "--untracked-files=no"]).stdout.strip()
    if st:
        print("REPO NOT CLEAN:\n" + st)
        sys.exit(3)


def run_check(prop, tier):
    t0 = time.time()
    p = sh([os.path.join(VERIF, "check"), prop, "--tier", tier], cwd=VERIF)
    sigs = re.findall(r"signature: (\S+)", p.stdout)
    return {"exit": p.returncode, "signatures": sigs[:12], "wall_s": round(time.time() - t0, 1),
            "tail": "\n".join(p.stdout.strip().splitlines()[-3:]) if p.returncode == 2 else ""}


def main():
    args = sys.argv[1:]
    only = None
    sdir = "seeded"
    tier = "quick"
    also = []
    marked = False
    i = 0
    while i < len(args):
        if args[i] == "--only":
            only = args[i + 1]
            i += 1
        elif args[i] == "--marked":
            marked = args[i + 1]  # round number in the .round marker file
            i += 1
        elif args[i] == "--reverts":
            sdir = os.path.join("selftest", "reverts")
        elif args[i] == "--tier":
            tier = args[i + 1]
            i += 1
        elif args[i] == "--also":
            also = args[i + 1].split(",")
            i += 1
        i += 1
    clean()
    out_path = os.path.join(VERIF, "selftest", "seeded_results.json" if sdir == "seeded"
                            else "reverts_results.json")
    try:
        results = json.load(open(out_path))
    except (OSError, ValueError):
        results = {}
    for d in sorted(os.listdir(os.path.join(VERIF, sdir))):
        if only and not d.startswith(only):
            continue
        if marked:
            mp = os.path.join(VERIF, sdir, d, ".round")
            if not os.path.exists(mp) or open(mp).read().strip() != str(marked):
                continue
        patch = os.path.join(VERIF, sdir, d, "patch.diff")
        if not os.path.exists(patch):
            continue
        prop = d.split("-")[0]
        a = sh(["git", "-C", REPO, "apply", patch])
        if a.returncode != 0:
            print("%-40s PATCH DOES NOT APPLY: %s" % (d, a.stdout.strip()[:200]))
            results[d] = {"applies": False}
            clean()
            continue
        try:
            r = {"applies": True, "tier": tier, "checks": {}}
            for c in [prop] + [x for x in also if x != prop]:
                if not os.path.exists(os.path.join(VERIF, "checkers", c.lower() + ".py")):
                    r["checks"][c] = {"exit": None, "note": "check not built"}
                    continue
                r["checks"][c] = run_check(c, tier)
        finally:
            clean()
        own = r["checks"].get(prop, {})
        verdict = {1: "CAUGHT", 0: "MISSED", 2: "INCONCLUSIVE", None: "NO-CHECK"}.get(
            own.get("exit"), "?")
        others = [c for c, v in r["checks"].items() if c != prop and v.get("exit") == 1]
        print("%-40s %-12s %s %s%s" % (d, verdict, own.get("wall_s", ""),
                                       " ".join(own.get("signatures", [])[:3]),
                                       ("  also caught by " + ",".join(others)) if others else ""))
        if own.get("tail"):
            print("      " + own["tail"].replace("\n", "\n      "))
        results[d] = r
        with open(out_path, "w") as f:
            json.dump(results, f, indent=1, sort_keys=True)
    clean()


if __name__ == "__main__":
    main()
