#!/usr/bin/env python3
"""Writes seeded/<id>/meta.json for the changes of one round (those carrying a `.round` marker)
from the confirmation log, the first-run results and the current results.

  selftest/write_meta.py <round> <confirm log> <first-run results json>
"""
import json
import os
import re
import sys

VERIF = os.path.dirname(os.path.dirname(os.path.abspath(__file__)))


def needs(notes):
    m = re.search(r"(?:Needed to manifest|Needs to manifest|Trigger|Needed input|To manifest)[^:\n]*:\s*(.+?)(?:\n\s*\n|\Z)", notes, re.S | re.I)
    txt = (m.group(1) if m else notes.strip().split("\n\n")[0])
    return re.sub(r"\s+", " ", txt).strip()[:400]


def main():
    rnd, conf, first = int(sys.argv[1]), sys.argv[2], json.load(open(sys.argv[3]))
    now = json.load(open(os.path.join(VERIF, "selftest", "seeded_results.json")))
    lines = {l.split(" | ")[0]: l.strip() for l in open(conf) if " | " in l}
    for d in sorted(os.listdir(os.path.join(VERIF, "seeded"))):
        dd = os.path.join(VERIF, "seeded", d)
        mp = os.path.join(dd, ".round")
        if not os.path.exists(mp) or open(mp).read().strip() != str(rnd):
            continue
        prop = d.split("-")[0]
        ll = lines.get(d, "")
        notes = open(os.path.join(dd, "notes.md")).read() if os.path.exists(
            os.path.join(dd, "notes.md")) else ""
        f = first.get(d, {}).get("checks", {}).get(prop, {})
        n = now.get(d, {}).get("checks", {}).get(prop, {})
        meta = {
            "id": d, "breaks_property": prop, "round": rnd,
            "source": "independent sub-agent given only the property text, its own scratch "
                      "worktree and the one-line ideas of the earlier rounds to avoid",
            "needs_to_manifest": needs(notes),
            "confirmed_by_me": {
                "how": "selftest/confirm_seeded.sh (ONLY_ROUND=<n>) in a scratch worktree outside "
                       "/repo and /verif (removed afterwards)",
                "suite_with_patch_passes_53": "51 passed" in ll and "2 passed" in ll.split(
                    "suite-with-patch:")[1].split("| demo-with-patch")[0] if ll else None,
                "demo_fails_with_patch": "demo-with-patch: test result: FAILED" in ll,
                "demo_passes_without_patch": "clean-demo: test result: ok" in ll,
                "log_line": ll},
            "first_run_as_delivered": {"quick_exit": f.get("exit"), "caught": (f.get("exit") == 1) if f.get("exit") is not None else None,
                                       "signatures": f.get("signatures", [])[:4]},
            "my_checks": {"command": "selftest/run_seeded.py --only %s" % d,
                          "quick_exit": n.get("exit"), "caught": (n.get("exit") == 1) if n.get("exit") is not None else None,
                          "signatures": n.get("signatures", [])[:4]},
        }
        with open(os.path.join(dd, "meta.json"), "w") as fh:
            json.dump(meta, fh, indent=1, ensure_ascii=False)
        print(d, meta["first_run_as_delivered"]["caught"], meta["my_checks"]["caught"])


if __name__ == "__main__":
    main()
