#!/bin/bash
# Confirms every seeded change in /verif/seeded: (a) the unedited 53-test suite passes with the
# patch, (b) the demonstration fails with it, (c) the demonstration passes without it.
# Works in ONE scratch worktree outside /repo and /verif and removes it at the end.
set -u
W=${CONFIRM_W:-/tmp/seedconfirm}
OUT=${CONFIRM_OUT:-/verif/selftest/confirm_seeded.log}
export CARGO_NET_OFFLINE=true CARGO_TERM_COLOR=never
git -C /repo worktree remove --force $W 2>/dev/null
git -C /repo worktree add -q --detach $W HEAD || exit 2
cp /repo/Cargo.lock $W/
: > $OUT
only="${1:-}"
for d in /verif/seeded/*/; do
  id=$(basename $d)
  [ -n "$only" ] && [ "$only" != "$id" ] && continue
  [ -n "${ONLY_PROPS:-}" ] && ! echo " $ONLY_PROPS " | grep -q " ${id%%-*} " && continue
  [ -f $d/patch.diff ] || continue
  [ -n "${ONLY_ROUND2:-}" ] && [ ! -f $d/.round ] && continue
  [ -n "${ONLY_ROUND:-}" ] && [ "$(cat $d/.round 2>/dev/null)" != "$ONLY_ROUND" ] && continue
  cd $W && git checkout -q -- . && git clean -fdq wgsl_to_wgpu/tests
  demo=demo_$(echo $id | tr '-' '_' | tr 'A-Z' 'a-z')
  if [ -d $d/demo ]; then echo "$id: standalone demo dir (manual)" >> $OUT; continue; fi
  cp $d/demo.rs wgsl_to_wgpu/tests/$demo.rs
  # (c) demo passes without the patch
  c=$(cargo test -q -p wgsl_to_wgpu --offline --test $demo 2>&1 | grep -E "^test result" | head -1)
  git apply $d/patch.diff || { echo "$id: PATCH DOES NOT APPLY" >> $OUT; continue; }
  # (a) suite passes with the patch (lib + the 2 integration tests)
  a=$(cargo test -q -p wgsl_to_wgpu --offline --lib --test create_shader_module 2>&1 | grep -E "^test result" | tr '\n' ' ')
  # (b) demo fails with the patch
  b=$(timeout 300 cargo test -q -p wgsl_to_wgpu --offline --test $demo 2>&1 | grep -E "^test result|timed out" | head -1)
  [ -z "$b" ] && b="(no result: timeout/crash)"
  echo "$id | clean-demo: $c | suite-with-patch: $a | demo-with-patch: $b" >> $OUT
done
cd / && git -C /repo worktree remove --force $W
echo done >> $OUT
