"""ShaderSpec: a structured description of a WGSL shader from which both the WGSL text and the
ground truth (who uses what, layouts, roles, expected names ...) are derived.  Nothing here
looks at the generator under test or at naga."""
from gen import wtypes as W

STAGES = ("vertex", "fragment", "compute")
STAGE_BIT = {"vertex": 1, "fragment": 2, "compute": 4}


class Global:
    def __init__(self, name, kind, **kw):
        self.name = name
        self.kind = kind  # buffer | texture | sampler | push | private | workgroup
        self.space = kw.get("space")  # uniform | storage
        self.access = kw.get("access")  # read | read_write
        self.ty = kw.get("ty")
        self.tex = kw.get("tex")  # dict(cls, dim, sample, format, access)
        self.comparison = kw.get("comparison", False)
        self.group = kw.get("group")
        self.binding = kw.get("binding")
        self.len_override = kw.get("len_override")  # name of an override used as array length
        self.decl_text = kw.get("decl_text")  # verbatim declaration (types the model cannot print)

    def is_resource(self):
        return self.kind in ("buffer", "texture", "sampler")

    def type_wgsl(self):
        if self.kind == "texture":
            t = self.tex
            d = t["dim"]
            if t["cls"] == "sampled":
                return "texture_%s<%s>" % (d, t["sample"])
            if t["cls"] == "multisampled":
                return "texture_multisampled_2d<%s>" % t["sample"]
            if t["cls"] == "depth":
                return "texture_depth_%s" % d
            if t["cls"] == "depth_multisampled":
                return "texture_depth_multisampled_2d"
            if t["cls"] == "storage":
                return "texture_storage_%s<%s, %s>" % (d, t["format"], t["access"])
        if self.kind == "sampler":
            return "sampler_comparison" if self.comparison else "sampler"
        if self.len_override and self.ty[0] == "a":
            return "array<%s, %s>" % (W.wgsl(self.ty[1]), self.len_override)
        return W.wgsl(self.ty)

    def decl(self, idx_suffix=False):
        if self.decl_text:
            return self.decl_text
        at = ""
        if self.is_resource():
            gs, bs = str(self.group), str(self.binding)
            if self.group > 2 ** 31 - 1:
                gs += "u"
            if self.binding > 2 ** 31 - 1:
                bs += "u"
            at = "@group(%s) @binding(%s) " % (gs, bs)
        if self.kind == "buffer":
            sp = "uniform" if self.space == "uniform" else (
                "storage, read_write" if self.access == "read_write" else
                ("storage, read" if self.access == "read_explicit" else "storage"))
            return "%svar<%s> %s: %s;" % (at, sp, self.name, self.type_wgsl())
        if self.kind in ("texture", "sampler"):
            return "%svar %s: %s;" % (at, self.name, self.type_wgsl())
        sp = {"push": "push_constant", "private": "private", "workgroup": "workgroup"}[self.kind]
        return "var<%s> %s: %s;" % (sp, self.name, self.type_wgsl())

    def resource_kind(self):
        return {"buffer": "buffer", "texture": "view", "sampler": "sampler"}[self.kind]


class Action:
    """One real access to a global, or one call, placed at `site` inside a function body."""

    def __init__(self, what, site, **kw):
        self.what = what  # access | call
        self.site = site
        self.glob = kw.get("glob")      # global name(s) touched (list)
        self.form = kw.get("form")      # load store atomic arraylen dims numlevels texload ...
        self.callee = kw.get("callee")
        self.expr = kw.get("expr")      # f32-typed expression text or None
        self.stmt = kw.get("stmt")      # statement text (with ';') or None


class Func:
    def __init__(self, name, returns_value):
        self.name = name
        self.returns_value = returns_value
        self.actions = []


class Entry:
    def __init__(self, name, stage):
        self.name = name
        self.stage = stage
        self.actions = []
        self.params = []        # list of dict(name, struct=..|builtin=..,ty)
        self.result = None      # None | dict(kind=position|struct|location, ...)
        self.workgroup_size = None  # list of 1-3 (int or const name)
        self.workgroup_expected = None


class ShaderSpec:
    def __init__(self):
        self.structs = {}      # name -> StructDef (insertion ordered = declaration order)
        self.globals = []
        self.consts = []       # dict(name, decl, ty, bits|None, skipped: bool)
        self.overrides = []    # dict(name, ty, id, default)
        self.funcs = []
        self.entries = []
        self.header = []       # comment lines etc.
        self.expected_supported = True
        self.families = []
        self.extra_decls = []

    # ------------------------------------------------------------------ printing
    def global_by_name(self, n):
        for g in self.globals:
            if g.name == n:
                return g
        raise KeyError(n)

    def wgsl(self):
        L = list(self.header)
        L += [d for d in self.extra_decls if d.startswith("alias ")]
        decls = [c["decl"] for c in self.consts]
        if getattr(self, "consts_one_line", False) and decls:
            # minified style: several declarations on one source line
            L.append(" ".join(decls))
        else:
            L += decls
        for o in self.overrides:
            at = "@id(%d) " % o["id"] if o.get("id") is not None else ""
            d = " = %s" % o["default"] if o.get("default") is not None else ""
            L.append("%soverride %s: %s%s;" % (at, o["name"], o.get("decl_ty") or o["ty"], d))
        for sd in self.structs.values():
            if not getattr(sd, "predeclared", False):
                L.append(sd.wgsl())
        G = [g.decl() for g in self.globals]
        G += [d for d in self.extra_decls if not d.startswith("alias ")]
        Fn = ["fn ident_f(x: f32) -> f32 { return x; }"]
        for f in self.funcs:
            Fn.append(self._func_text(f))
        En = [self._entry_text(e) for e in self.entries]
        order = getattr(self, "decl_order", "default")
        if order == "functions_first":
            # module-scope declarations may come in any order: code above the variables it uses
            L += Fn + En + G
        elif order == "entries_first":
            L += En + G + Fn
        else:
            L += G + Fn + En
        text = "\n".join(L) + "\n"
        if getattr(self, "no_final_newline", False):
            text = text[:-1]
            if getattr(self, "final_comment", False):
                text += " // the file ends inside this comment"
        nl = getattr(self, "line_ending", "\n")
        if nl != "\n":
            text = text.replace("\n", nl)
        return text

    def _body(self, actions, value_fn):
        B = ["    var acc: f32 = 0.0;", "    var i: i32 = 0;"]
        n = 0
        ret_expr = None
        for a in actions:
            n += 1
            E, S_ = a.expr, a.stmt
            if S_ is None and E is not None:
                S_ = "acc = acc + %s;" % E
            site = a.site
            if site == "return_expr":
                ret_expr = E
                continue
            B.append("    " + scaffold(site, E, S_, n))
        if value_fn:
            B.append("    return acc%s;" % (" + " + ret_expr if ret_expr else ""))
        return B

    def _func_text(self, f):
        sig = "fn %s()%s {" % (f.name, " -> f32" if f.returns_value else "")
        return "\n".join([sig] + self._body(f.actions, f.returns_value) + ["}"])

    def _entry_text(self, e):
        ps = []
        for p in e.params:
            if p.get("builtin"):
                ps.append("@builtin(%s) %s: %s" % (p["builtin"], p["name"], p["ty"]))
            elif p.get("location") is not None:
                ps.append("@location(%d) %s: %s" % (p["location"], p["name"], p["ty"]))
            else:
                ps.append("%s: %s" % (p["name"], p["struct"]))
        head = "@%s" % e.stage
        if e.stage == "compute":
            head += " @workgroup_size(%s)" % ", ".join(str(x) for x in e.workgroup_size)
        res = ""
        tail = []
        r = e.result
        if r:
            if r["kind"] == "position":
                res = " -> @builtin(position) vec4<f32>"
                tail = ["    return vec4<f32>(acc);"]
            elif r["kind"] == "location":
                extra = " @second_blend_source" if r.get("blend_src") else ""
                res = " -> @location(%d)%s %s" % (r["location"], extra, r["ty"])
                tail = ["    return %s(%s);" % (r["ty"], "acc" if "f32" in r["ty"] else
                                                ("i32(acc)" if "i32" in r["ty"] else "u32(acc)"))]
            elif r["kind"] == "builtin":
                res = " -> @builtin(%s) %s" % (r["builtin"], r["ty"])
                tail = ["    return %s(acc);" % r["ty"]]
            elif r["kind"] == "struct":
                res = " -> %s" % r["struct"]
                tail = ["    var out_: %s;" % r["struct"]]
                sd = self.structs[r["struct"]]
                m0 = sd.members[0]
                tail.append("    return out_;")
        body = self._body(e.actions, False)
        return "\n".join(["%s\nfn %s(%s)%s {" % (head, e.name, ", ".join(ps), res)] + body +
                         tail + ["}"])

    # ------------------------------------------------------------------ ground truth
    def reach(self, naga_view=False):
        """name -> set of globals touched transitively (functions and entries).  naga_view: as
        naga's usage analysis sees it (an address that is taken and never used is no use)."""
        direct = {}
        calls = {}
        for f in self.funcs + self.entries:
            direct[f.name] = set()
            calls[f.name] = set()
            for a in f.actions:
                if a.what == "access":
                    if naga_view and a.form == "addr_only":
                        continue
                    direct[f.name].update(a.glob)
                else:
                    calls[f.name].add(a.callee)
        memo = {}

        def go(n):
            if n in memo:
                return memo[n]
            memo[n] = set(direct[n])
            for c in calls[n]:
                memo[n] |= go(c)
            return memo[n]
        for n in direct:
            go(n)
        return memo

    def call_depth(self):
        calls = {f.name: [a.callee for a in f.actions if a.what == "call"]
                 for f in self.funcs + self.entries}
        memo = {}

        def d(n):
            if n not in memo:
                memo[n] = 1 + max([d(c) for c in calls[n]] or [0])
            return memo[n]
        return {n: d(n) for n in calls}

    def stage_bits(self):
        """global name -> bitmask of stages owning an entry point that statically uses it"""
        r = self.reach()
        out = {g.name: 0 for g in self.globals}
        for e in self.entries:
            for g in r[e.name]:
                out[g] |= STAGE_BIT[e.stage]
        return out

    def entry_stage_bits(self):
        b = 0
        for e in self.entries:
            b |= STAGE_BIT[e.stage]
        return b

    def host_structs(self):
        """structs reachable from the type of any module-scope variable"""
        acc = []
        for g in self.globals:
            if g.ty is not None:
                W.reachable_structs(g.ty, self.structs, acc)
        return acc

    def emitted_structs(self):
        host = set(self.host_structs())
        results = {e.result["struct"] for e in self.entries
                   if e.result and e.result["kind"] == "struct"}
        params = set()
        for e in self.entries:
            for p in e.params:
                if p.get("struct"):
                    params.add(p["struct"])
        out = []
        for n in self.structs:
            if n in host or (n in params and n not in results):
                out.append(n)
        return out

    def vertex_input_structs(self):
        """struct parameter lists per vertex entry (parameter order)"""
        out = {}
        for e in self.entries:
            if e.stage == "vertex":
                out[e.name] = [p["struct"] for p in e.params if p.get("struct")]
        return out

    def truth(self):
        bits = self.stage_bits()
        groups = {}
        for g in self.globals:
            if g.is_resource():
                groups.setdefault(str(g.group), {})[str(g.binding)] = {
                    "name": g.name, "kind": g.resource_kind()}
        push = None
        for g in self.globals:
            if g.kind == "push":
                sz = W.align_size(g.ty, self.structs)[1]
                push = {"name": g.name, "size": sz,
                        "stages": bits[g.name] or self.entry_stage_bits(),
                        "used": bool(bits[g.name])}
        host = self.host_structs()
        layouts = {}
        for n in self.structs:
            sd = self.structs[n]
            if any(m["ty"][0] == "s" and m["ty"][1] == "bool" for m in sd.members) or \
                    W.contains_kind(W.ST(n), self.structs, ("bool",)):
                continue  # bool has no WGSL layout
            try:
                layouts[n] = W.struct_layout(sd, self.structs)
            except Exception:
                pass
        return {
            "stage_bits": bits, "entry_stage_bits": self.entry_stage_bits(), "groups": groups,
            "push": push, "host_structs": host, "emitted_structs": self.emitted_structs(),
            "layouts": layouts,
            "entries": [{"name": e.name, "stage": e.stage,
                         "workgroup": e.workgroup_expected,
                         "struct_params": [p["struct"] for p in e.params if p.get("struct")],
                         "frag_targets": frag_targets(self, e) if e.stage == "fragment" else None}
                        for e in self.entries],
            "call_depth": self.call_depth(),
            "overrides": self.overrides,
            "consts": [{k: c[k] for k in ("name", "ty", "bits", "skipped")} for c in self.consts],
        }


def frag_targets(spec, e):
    r = e.result
    if not r:
        return 0
    if r["kind"] == "location":
        return r["location"] + 1
    if r["kind"] == "struct":
        locs = [m["location"] for m in spec.structs[r["struct"]].members
                if m.get("location") is not None]
        return (max(locs) + 1) if locs else 0
    return 0


S_SITES = ["top", "block", "if_accept", "if_reject", "else_if", "loop_body", "continuing",
           "for_body", "for_update", "while_body", "switch_case", "switch_default",
           "switch_multi", "if_false", "else_of_true", "if_const_expr_false", "while_false",
           "else_if_chain_130", "nested_for_6", "else_then_if", "guard_else_break",
           "else_block_then_loop", "switch_after_default", "switch_default_middle"]
E_SITES = ["let_init", "var_init", "if_cond", "while_cond", "break_if", "for_init", "for_cond",
           "switch_sel", "call_arg", "return_expr", "nested_expr"]


def scaffold(site, E, S_, n):
    if site == "top":
        return S_
    if site == "block":
        return "{ { %s } }" % S_
    if site == "if_accept":
        return "if (acc >= 0.0) { %s }" % S_
    if site == "if_reject":
        return "if (acc < -1.0) { } else { %s }" % S_
    if site == "else_if":
        return "if (acc < -1.0) { } else if (acc < 1e30) { %s }" % S_
    # statically dead code is still a static use (WGSL has no reachability in "statically used")
    if site == "if_false":
        return "if (false) { %s }" % S_
    if site == "else_of_true":
        return "if (true) { acc = acc + 1.0; } else { { %s } }" % S_
    if site == "if_const_expr_false":
        return "if (1 > 2) { if (false) { %s } }" % S_
    if site == "while_false":
        return "while (false) { %s }" % S_
    if site == "else_if_chain_130":
        # one source brace level, 130 IR nesting levels (each `else if` nests in the reject block)
        arms = " else ".join("if (acc < %d.5) { acc = acc + 1.0; }" % -(k + 2) for k in range(130))
        return "%s else { %s }" % (arms, S_)
    if site == "switch_after_default":
        return "switch (i) { default: { acc = acc + 1.0; } case 5: { %s } }" % S_
    if site == "switch_default_middle":
        return "switch (i) { case 1: { } default: { } case 7, 8: { %s } case 9: { } }" % S_
    if site == "else_then_if":
        # the statement sits in an else block BEFORE an if that ends the block
        return "if (acc < -1.0) { } else { %s if (acc > 5.0) { acc = acc + 1.0; } }" % S_
    if site == "guard_else_break":
        # hand-written loop guard: empty then-block, the else block works and then breaks
        return "loop { if (acc < -3.0) { } else { %s break; } acc = acc - 1.0; }" % S_
    if site == "else_block_then_loop":
        return "if (acc < -1.0) { } else { { %s } loop { break; } if (acc > 9.0) { } }" % S_
    if site == "nested_for_6":
        open_ = "".join("for (var n%d_%d = 0; n%d_%d < 1; n%d_%d++) { " % (n, k, n, k, n, k)
                        for k in range(6))
        return open_ + S_ + " }" * 6
    if site == "loop_body":
        return "loop { %s break; }" % S_
    if site == "continuing":
        return "i = 0; loop { if (i >= 1) { break; } continuing { %s i = i + 1; } }" % S_
    if site == "for_body":
        return "for (var k%d = 0; k%d < 1; k%d++) { %s }" % (n, n, n, S_)
    if site == "for_update":
        if S_.lstrip().startswith("_ ="):
            S_ = "acc = acc + f32(" + S_.split("=", 1)[1].strip().rstrip(";") + ");"
        return "for (var k%d = 0; k%d < 1; %s) { k%d++; }" % (n, n, S_.rstrip().rstrip(";"), n)
    if site == "while_body":
        return "i = 0; while (i < 1) { %s i = i + 1; }" % S_
    if site == "switch_case":
        return "switch (i) { case 0: { %s } default: { } }" % S_
    if site == "switch_default":
        return "switch (i) { case 7: { } default: { %s } }" % S_
    if site == "switch_multi":
        return "switch (i) { case 1, 0, 3: { %s } case 9: { } default: { } }" % S_
    if site == "let_init":
        return "let t%d = %s; acc = acc + t%d;" % (n, E, n)
    if site == "var_init":
        return "var w%d = %s; acc = acc + w%d;" % (n, E, n)
    if site == "if_cond":
        return "if (%s > 1e30) { acc = acc + 1.0; }" % E
    if site == "while_cond":
        return "while (%s > 1e30) { acc = acc + 1.0; break; }" % E
    if site == "break_if":
        return "loop { continuing { break if (%s <= 1e30); } }" % E
    if site == "for_init":
        return "for (var q%d = %s; q%d < -1e30; q%d = q%d + 1.0) { }" % (n, E, n, n, n)
    if site == "for_cond":
        return "for (var k%d = 0; f32(k%d) > %s + 1e30; k%d++) { }" % (n, n, E, n)
    if site == "switch_sel":
        return "switch (i32(%s)) { case 0: { acc = acc + 1.0; } default: { } }" % E
    if site == "call_arg":
        return "acc = acc + ident_f(%s);" % E
    if site == "nested_expr":
        return "acc = acc + select(%s, 1.0, acc > 2.0) * 2.0;" % E
    raise ValueError(site)


# ---------------------------------------------------------------------------------------------
# access forms


def lvalue_path(expr, t, structs, prefer=None):
    """(lvalue expression, scalar kind, is_atomic) reaching a scalar inside a value of type t"""
    k = t[0]
    if k == "s":
        return expr, t[1], False
    if k == "at":
        return expr, t[1], True
    if k == "v":
        return expr + ".x", t[2], False
    if k == "m":
        return expr + "[0][0]", t[3], False
    if k == "a":
        return lvalue_path(expr + "[0]", t[1], structs, prefer)
    if k == "st":
        ms = [m for m in structs[t[1]].members]
        m = ms[prefer % len(ms)] if prefer is not None else ms[0]
        return lvalue_path("%s.%s" % (expr, m["name"]), m["ty"], structs, prefer)
    raise ValueError(t)


def buffer_forms(g, structs, prefer=None):
    """possible access forms for a buffer / push / private / workgroup global:
    list of (form, expr|None, stmt|None)"""
    lv, kind, atomic = lvalue_path(g.name, g.ty, structs, prefer)
    writable = (g.kind == "buffer" and g.space == "storage" and g.access == "read_write") or \
        g.kind in ("private", "workgroup")
    out = []
    if atomic and kind == "f32":
        if writable:
            out.append(("atomic_load", "atomicLoad(&%s)" % lv, None))
            out.append(("atomic_store", None, "atomicStore(&%s, 3.0);" % lv))
    elif atomic:
        if writable:
            out.append(("atomic_load", "f32(atomicLoad(&%s))" % lv, None))
            out.append(("atomic_rmw", "f32(atomicAdd(&%s, %s(1)))" % (lv, kind),
                        "atomicMax(&%s, %s(2));" % (lv, kind)))
            out.append(("atomic_store", None, "atomicStore(&%s, %s(3));" % (lv, kind)))
            out.append(("atomic_cas", None, "{ let cas_r = atomicCompareExchangeWeak(&%s, %s(1), "
                        "%s(2)); }" % (lv, kind, kind)))
    else:
        cast = lv if kind == "f32" else "f32(%s)" % lv
        out.append(("load", cast, None))
        out.append(("ptr_deref", "f32(*(&%s))" % lv, None))
        if g.kind in ("buffer", "push"):
            # the address is taken and never used: still a static access by the WGSL rules
            # (naga's usage analysis does not count it; see reach(naga_view=True))
            out.append(("addr_only", None, "{ let unused_ptr = &%s; }" % lv))
        if writable:
            one = {"f32": "1.0", "i32": "1i", "u32": "1u", "f64": "1.0lf", "bool": "true"}[kind]
            out.append(("store", None, "%s = %s;" % (lv, one)))
    # arrayLength
    t = g.ty
    if g.kind == "buffer" and g.space == "storage":
        if t[0] == "a" and t[2] is None:
            out.append(("arraylen", "f32(arrayLength(&%s))" % g.name, None))
        elif t[0] == "st":
            last = structs[t[1]].members[-1]
            if last["ty"][0] == "a" and last["ty"][2] is None:
                out.append(("arraylen", "f32(arrayLength(&%s.%s))" % (g.name, last["name"]), None))
    return out


ICOORD = {"1d": "0", "2d": "vec2<i32>(0, 0)", "2d_array": "vec2<i32>(0, 0)",
          "3d": "vec3<i32>(0, 0, 0)"}
FCOORD = {"2d": "vec2<f32>(0.5, 0.5)", "2d_array": "vec2<f32>(0.5, 0.5)",
          "3d": "vec3<f32>(0.5, 0.5, 0.5)", "cube": "vec3<f32>(0.5, 0.5, 0.5)",
          "cube_array": "vec3<f32>(0.5, 0.5, 0.5)"}

FORMAT_KIND = {}
for _f in ("rgba8unorm rgba8snorm rgba16float r32float rg32float rgba32float bgra8unorm r8unorm "
           "r8snorm r16float r16unorm r16snorm rg8unorm rg8snorm rg16float rg16unorm rg16snorm "
           "rgba16unorm rgba16snorm rgb10a2unorm rg11b10float").split():
    FORMAT_KIND[_f] = "f32"
for _f in ("rgba8uint rgba16uint r32uint rg32uint rgba32uint r8uint r16uint rg8uint rg16uint "
           "rgb10a2uint").split():
    FORMAT_KIND[_f] = "u32"
FORMAT_KIND["r64uint"] = "u64"
for _f in ("rgba8sint rgba16sint r32sint rg32sint rgba32sint r8sint r16sint rg8sint "
           "rg16sint").split():
    FORMAT_KIND[_f] = "i32"
ALL_FORMATS = sorted(FORMAT_KIND)


def texture_forms(g):
    t = g.tex
    d = t["dim"]
    n = g.name
    out = []
    dims = "f32(textureDimensions(%s)%s)" % (n, "" if d == "1d" else ".x")
    out.append(("dims", dims, None))
    arr = ", 0" if d in ("2d_array",) else ""
    if d in ("2d_array", "cube_array") and t["cls"] in ("sampled", "depth", "storage"):
        out.append(("numlayers", "f32(textureNumLayers(%s))" % n, None))
    if t["cls"] == "sampled":
        out.append(("numlevels", "f32(textureNumLevels(%s))" % n, None))
        if d in ICOORD:
            out.append(("texload", "f32(textureLoad(%s, %s%s, 0).x)" % (n, ICOORD[d], arr), None))
    elif t["cls"] == "multisampled":
        out.append(("texload", "f32(textureLoad(%s, vec2<i32>(0, 0), 0).x)" % n, None))
        out.append(("numsamples", "f32(textureNumSamples(%s))" % n, None))
    elif t["cls"] == "depth":
        out.append(("numlevels", "f32(textureNumLevels(%s))" % n, None))
        if d in ("2d", "2d_array"):
            out.append(("texload", "textureLoad(%s, vec2<i32>(0, 0)%s, 0)" % (n, arr), None))
    elif t["cls"] == "depth_multisampled":
        out.append(("texload", "textureLoad(%s, vec2<i32>(0, 0), 0)" % n, None))
    elif t["cls"] == "storage":
        kind = FORMAT_KIND[t["format"]]
        if t["access"] in ("read", "read_write"):
            out.append(("texload", "f32(textureLoad(%s, %s%s).x)" % (n, ICOORD[d], arr), None))
        if t["access"] in ("write", "read_write"):
            out.append(("texstore", None, "textureStore(%s, %s%s, vec4<%s>(%s));" % (
                n, ICOORD[d], arr, kind, {"f32": "1.0", "u32": "1u", "i32": "1i", "u64": "1lu"}[kind])))
        if t["access"] == "atomic":
            out.append(("texatomic", None, "textureAtomicMax(%s, %s%s, %s(1));" % (
                n, ICOORD[d], arr, kind)))
    return out


def sample_form(tex, samp, variant=0):
    """textureSampleLevel / CompareLevel through a sampler: touches both globals"""
    t = tex.tex
    d = t["dim"]
    if d not in FCOORD:
        return None
    arr = ", 0" if d in ("2d_array", "cube_array") else ""
    if samp.comparison:
        if t["cls"] != "depth":
            return None
        if variant and d in ("2d", "2d_array", "cube", "cube_array"):
            return ("gather_cmp", "textureGatherCompare(%s, %s, %s%s, 0.5).x" % (
                tex.name, samp.name, FCOORD[d], arr), None)
        return ("sample_cmp", "textureSampleCompareLevel(%s, %s, %s%s, 0.5)" % (
            tex.name, samp.name, FCOORD[d], arr), None)
    if t["cls"] == "sampled" and t["sample"] == "f32":
        if variant == 1 and d in ("2d", "2d_array", "cube", "cube_array"):
            return ("gather", "textureGather(0, %s, %s, %s%s).x" % (
                tex.name, samp.name, FCOORD[d], arr), None)
        if variant == 2 and d in ("2d", "3d", "cube"):
            g0 = "vec2<f32>(0.0, 0.0)" if d == "2d" else "vec3<f32>(0.0, 0.0, 0.0)"
            return ("sample_grad", "textureSampleGrad(%s, %s, %s, %s, %s).x" % (
                tex.name, samp.name, FCOORD[d], g0, g0), None)
        return ("sample", "textureSampleLevel(%s, %s, %s%s, 0.0).x" % (
            tex.name, samp.name, FCOORD[d], arr), None)
    if t["cls"] == "depth":
        return ("sample_depth", "textureSampleLevel(%s, %s, %s%s, 0)" % (
            tex.name, samp.name, FCOORD[d], arr), None)
    return None
