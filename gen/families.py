"""Workload families: seeded builders of ShaderSpecs, each biased towards the structure one group
of properties is about.  All randomness comes from the rng passed in."""
from gen import wtypes as W
from gen.spec import (ShaderSpec, Global, Action, Func, Entry, S_SITES, E_SITES, buffer_forms,
                      texture_forms, sample_form, ALL_FORMATS, FORMAT_KIND)

NONASCII = ["größe", "Δt", "名前", "été", "naïve", "ĳ_x", "пер", "µ_val"]
WORDS = ["alpha", "beta", "gamma", "delta", "color", "light", "view", "proj", "model", "time",
         "scale", "offset", "count", "index", "data", "params", "state", "buf", "tex", "samp",
         "Camera", "Material", "VertexIn", "Inst", "Uniforms", "Globals", "mixedCase", "UPPER",
         "snake_case", "x", "y1", "z_2", "a", "b", "c", "self_", "Type", "Vec", "Option", "Some",
         "None", "Ok", "String", "Self_", "bind_group", "wgpu_", "glam_", "device", "entries"]


class Namer:
    def __init__(self, r, nonascii=0.08):
        self.r = r
        self.used = set()
        self.nonascii = nonascii

    def fresh(self, prefix=""):
        for _ in range(100):
            w = self.r.choice(NONASCII) if self.r.random() < self.nonascii else \
                self.r.choice(WORDS)
            n = "%s%s_%d" % (prefix, w, len(self.used))
            if n.lower() not in self.used:
                self.used.add(n.lower())
                return n
        raise RuntimeError("names exhausted")


def index_list(r, n, style=None):
    style = style or r.choice(["dense", "dense", "shuffled", "sparse", "sparse", "huge"])
    if style == "dense":
        return list(range(n))
    if style == "shuffled":
        xs = list(range(n))
        r.shuffle(xs)
        return xs
    if style == "sparse":
        xs = r.sample(range(0, 40), n)
        return xs
    pool = [0, 1, 7, 255, 256, 999, 65535, 65536, 2 ** 31 - 1, 2 ** 31, 2 ** 32 - 2, 2 ** 32 - 1]
    return r.sample(pool, n) if n <= len(pool) else list(range(n))


# ---------------------------------------------------------------------------------------------
# types


def rand_scalar(r, kinds=("f32", "i32", "u32")):
    return W.S(r.choice(kinds))


def rand_leaf(r, f64=0.05):
    k = r.random()
    kinds = ("f32", "f32", "i32", "u32")
    if k < 0.3:
        t = W.S(r.choice(kinds))
    elif k < 0.7:
        t = W.V(r.choice([2, 3, 3, 4]), r.choice(kinds))
    elif k < 0.9:
        t = W.M(r.choice([2, 3, 4]), r.choice([2, 3, 4]), "f32")
    else:
        t = W.V(r.choice([2, 3, 4]), "f32")
    if r.random() < f64:
        t = r.choice([W.S("f64"), W.V(r.choice([2, 3, 4]), "f64"),
                      W.M(r.choice([2, 3, 4]), r.choice([2, 3, 4]), "f64")])
    return t


def rand_member_type(r, spec, depth, structs_pool, f64=0.05, atomics=False):
    k = r.random()
    if depth > 0 and k < 0.18:
        n = r.choice([1, 2, 3, 4, 5, 7])
        return W.A(rand_member_type(r, spec, depth - 1, structs_pool, f64), n)
    if depth > 0 and structs_pool and k < 0.36:
        return W.ST(r.choice(structs_pool))
    if atomics and k < 0.45:
        return W.AT(r.choice(["u32", "i32", "f32"]))
    return rand_leaf(r, f64)


def make_struct(r, spec, namer, structs_pool, nmembers=None, depth=2, f64=0.05, atomics=False,
                traps=True, attrs=0.12):
    name = namer.fresh("S")
    name = name[0].upper() + name[1:]
    ms = []
    n = nmembers or r.randint(1, 6)
    for i in range(n):
        if traps and r.random() < 0.25:
            ty = r.choice([W.V(3, "f32"), W.S("f32"), W.V(3, "u32"), W.M(3, 3), W.V(2, "f32"),
                           W.A(W.V(3, "f32"), 2), W.M(2, 3), W.M(4, 3)])
        else:
            ty = rand_member_type(r, spec, depth, structs_pool, f64, atomics)
        m = {"name": namer.fresh("m"), "ty": ty}
        if ty[0] != "st" and r.random() < 0.07:
            # the member is declared through a WGSL type alias
            an = namer.fresh("Ty")
            an = an[0].upper() + an[1:]
            spec.extra_decls.append("alias %s = %s;" % (an, W.wgsl(ty)))
            m["alias"] = an
        if r.random() < attrs:
            a, s = W.align_size(ty, spec.structs)
            if r.random() < 0.5:
                m["align"] = a * r.choice([1, 2, 4])
            else:
                m["size"] = W.round_up(4, s) + r.choice([0, 4, 8, 16])
        ms.append(m)
    sd = W.StructDef(name, ms)
    spec.structs[name] = sd
    return name


def uniform_safe_struct(r, spec, namer):
    """struct satisfying the uniform address space constraints by construction"""
    name = namer.fresh("U")
    name = name[0].upper() + name[1:]
    ms = []
    for i in range(r.randint(1, 6)):
        ty = r.choice([W.S("f32"), W.S("u32"), W.S("i32"), W.V(2, "f32"), W.V(3, "f32"),
                       W.V(4, "f32"), W.V(4, "u32"), W.V(3, "i32"), W.M(4, 4), W.M(3, 3),
                       W.M(2, 2), W.M(2, 4), W.M(4, 3), W.A(W.V(4, "f32"), r.choice([1, 2, 5])),
                       W.A(W.M(4, 4), 2), W.A(W.M(3, 3), 2)])
        ms.append({"name": namer.fresh("m"), "ty": ty})
    spec.structs[name] = W.StructDef(name, ms)
    return name


# ---------------------------------------------------------------------------------------------
# resources


def texture_catalog():
    cat = []
    for dim in ("1d", "2d", "2d_array", "3d", "cube", "cube_array"):
        for k in ("f32", "i32", "u32"):
            cat.append({"cls": "sampled", "dim": dim, "sample": k})
    for dim in ("2d", "2d_array", "cube", "cube_array"):
        cat.append({"cls": "depth", "dim": dim})
    for k in ("f32", "i32", "u32"):
        cat.append({"cls": "multisampled", "dim": "2d", "sample": k})
    cat.append({"cls": "depth_multisampled", "dim": "2d"})
    return cat


def storage_texture_catalog():
    cat = []
    for fmt in ALL_FORMATS:
        for acc in ("read", "write", "read_write", "atomic"):
            for dim in ("1d", "2d", "2d_array", "3d"):
                if acc == "atomic" and fmt not in ("r32uint", "r32sint", "r64uint"):
                    continue
                cat.append({"cls": "storage", "dim": dim, "format": fmt, "access": acc})
    return cat


def rand_buffer_type(r, spec, namer, space, access):
    """a type for a uniform / storage variable (and the structs it needs)"""
    k = r.random()
    if space == "uniform":
        if k < 0.5:
            return W.ST(uniform_safe_struct(r, spec, namer))
        return r.choice([W.S("f32"), W.S("u32"), W.V(4, "f32"), W.V(3, "f32"), W.V(2, "i32"),
                         W.M(4, 4), W.M(3, 3), W.M(2, 2), W.A(W.V(4, "f32"), 3),
                         W.A(W.M(4, 4), 2)])
    rw = access == "read_write"
    if k < 0.35:
        inner = []
        if r.random() < 0.4:
            inner = [make_struct(r, spec, namer, [], depth=1, traps=False, attrs=0)]
        s = make_struct(r, spec, namer, inner, atomics=rw and r.random() < 0.3)
        if r.random() < 0.3:
            # trailing runtime array
            spec.structs[s].members.append(
                {"name": namer.fresh("rt"), "ty": W.A(r.choice(
                    [W.S("f32"), W.V(4, "f32"), W.V(3, "f32"), W.S("u32")] +
                    ([W.ST(inner[0])] if inner else [])), None)})
        return W.ST(s)
    if k < 0.5:
        return W.A(r.choice([W.S("f32"), W.S("u32"), W.V(4, "f32"), W.V(3, "f32"), W.V(2, "u32"),
                             W.M(4, 4)]), None)
    if k < 0.6 and rw:
        if r.random() < 0.25:
            # a bare atomic as the variable's type: the tool may refuse it ("Unsupported type")
            spec.expect_decline = "unsupported bare atomic"
            return W.AT(r.choice(["u32", "i32"]))
        return r.choice([W.A(W.AT("i32"), 2), W.A(W.AT("u32"), 4)])
    if k < 0.75:
        return W.A(rand_leaf(r), r.choice([1, 2, 4, 7]))
    return rand_leaf(r)


def rand_resource(r, spec, namer, group, binding, tex_item=None):
    same = [g for g in spec_globals_so_far(spec) if g.kind == "buffer" and g.group == group and
            g.ty[0] == "st" and not W.has_runtime_array(spec.structs[g.ty[1]])]
    if tex_item is None and same and r.random() < 0.2:
        # a second variable of the SAME struct type in this group (ping-pong buffers)
        g0 = r.choice(same)
        space, access = g0.space, g0.access
        if g0.space == "storage" and r.random() < 0.5 and "atomic" not in W.wgsl(g0.ty) and \
                not any("atomic" in W.wgsl(m["ty"]) for n_ in [g0.ty[1]] +
                        W.reachable_structs(g0.ty, spec.structs)
                        for m in spec.structs[n_].members):
            access = "read" if g0.access == "read_write" else "read_write"
        g = Global(namer.fresh("g"), "buffer", space=space, access=access, ty=g0.ty, group=group,
                   binding=binding)
        return g
    name = namer.fresh("g")
    if tex_item is not None:
        return Global(name, "texture", tex=dict(tex_item), group=group, binding=binding)
    k = r.random()
    if k < 0.22:
        ty = rand_buffer_type(r, spec, namer, "uniform", "read")
        return Global(name, "buffer", space="uniform", access="read", ty=ty, group=group,
                      binding=binding)
    if k < 0.5:
        acc = r.choice(["read", "read_write", "read_explicit"])
        ty = rand_buffer_type(r, spec, namer, "storage", acc)
        return Global(name, "buffer", space="storage", access=acc, ty=ty, group=group,
                      binding=binding)
    if k < 0.72:
        return Global(name, "texture", tex=dict(r.choice(texture_catalog())), group=group,
                      binding=binding)
    if k < 0.84:
        return Global(name, "texture", tex=dict(r.choice(storage_texture_catalog())),
                      group=group, binding=binding)
    return Global(name, "sampler", comparison=r.random() < 0.4, group=group, binding=binding)


# ---------------------------------------------------------------------------------------------
# call graph + accesses


def possible_accesses(spec, g, r):
    """[(globs, form, expr, stmt)] for global g"""
    out = []
    if g.kind in ("buffer", "push", "private", "workgroup"):
        for form, e, s in buffer_forms(g, spec.structs, prefer=r.randrange(8)):
            out.append(([g.name], form, e, s))
    elif g.kind == "texture":
        for form, e, s in texture_forms(g):
            out.append(([g.name], form, e, s))
        for s_ in spec.globals:
            if s_.kind == "sampler":
                f = sample_form(g, s_, r.randrange(3))
                if f:
                    out.append(([g.name, s_.name], f[0], f[1], f[2]))
    elif g.kind == "sampler":
        for t in spec.globals:
            if t.kind == "texture":
                f = sample_form(t, g, r.randrange(3))
                if f:
                    out.append(([t.name, g.name], f[0], f[1], f[2]))
    return out


def place(r, expr, stmt, value_fn, allow_return):
    sites = []
    if stmt is not None or expr is not None:
        sites += S_SITES
    if expr is not None:
        sites += [s for s in E_SITES if s != "return_expr" or (value_fn and allow_return)]
    return r.choice(sites)


def build_graph(r, spec, namer, nfuncs, stages, entries_per_stage=(1, 2), shape=None,
                unreached=0.12, accesses_per_global=(0, 3)):
    """helpers f0..f(n-1) (f_k may call f_j, j<k), entry points, accesses assigned at random."""
    shape = shape or r.choice(["random", "xstage", "chain", "diamond", "fan", "layers", "xstage",
                               "xstage"])
    if shape == "xstage":
        nfuncs = max(nfuncs, r.randint(4, 8))
    funcs = [Func(namer.fresh("fn_"), r.random() < 0.55) for _ in range(nfuncs)]
    spec.funcs = funcs
    used_return = set()

    def add_call(caller, callee, value_fn):
        if callee.returns_value:
            e, s = "%s()" % callee.name, (None if r.random() < 0.7 else "_ = %s();" % callee.name)
            if s is not None and r.random() < 0.5:
                e = None
        else:
            e, s = None, "%s();" % callee.name
        site = place(r, e, s, value_fn, caller.name not in used_return)
        if site == "return_expr":
            used_return.add(caller.name)
        if site in E_SITES and e is None:
            site = r.choice(S_SITES)
        caller.actions.append(Action("call", site, callee=callee.name, expr=e if site in E_SITES
                                     or s is None else None, stmt=s if site in S_SITES else None))

    for k, f in enumerate(funcs):
        if k == 0:
            continue
        if shape == "chain":
            cs = [funcs[k - 1]]
        elif shape == "diamond":
            cs = [funcs[k - 1], funcs[k - 1]] if k % 2 else [funcs[max(0, k - 2)], funcs[k - 1]]
        elif shape == "fan":
            cs = [funcs[0]] if k > 0 and r.random() < 0.8 else []
        elif shape == "layers":
            cs = r.sample(funcs[:k], min(k, r.randint(1, 3)))
        elif shape == "xstage":
            # the first third are leaves; the others call 1-3 earlier functions
            nleaf = max(1, nfuncs // 3)
            cs = [] if k < nleaf else r.sample(funcs[:k], min(k, r.randint(1, 3)))
        else:
            cs = r.sample(funcs[:k], min(k, r.choice([0, 1, 1, 2])))
        for c in cs:
            add_call(f, c, f.returns_value)
    ents = []
    for st in stages:
        for _ in range(r.randint(*entries_per_stage)):
            e = Entry(namer.fresh({"vertex": "vs_", "fragment": "fs_", "compute": "cs_"}[st]), st)
            ents.append(e)
    if r.random() < 0.5:
        r.shuffle(ents)  # stages interleaved in declaration order (vertex, fragment, vertex ...)
    spec.entries = ents
    for e in ents:
        if funcs:
            if shape in ("chain", "diamond"):
                cs = [funcs[-1]] if r.random() < 0.85 else []
            elif shape == "xstage":
                cs = r.sample(funcs, min(len(funcs), r.randint(1, 3)))
            else:
                cs = r.sample(funcs, min(len(funcs), r.choice([0, 1, 1, 2, 3])))
            for c in cs:
                add_call(e, c, False)
    # accesses
    holders = funcs + ents
    for g in spec.globals:
        if r.random() < unreached:
            continue
        acc = possible_accesses(spec, g, r)
        if not acc:
            continue
        for _ in range(r.randint(*accesses_per_global)):
            globs, form, e, s = r.choice(acc)
            cands = holders
            if not cands:
                continue
            if any(spec.global_by_name(x).kind == "workgroup" for x in globs):
                cands = [h for h in ents if h.stage == "compute"]
                if not cands:
                    continue
            h = r.choice(cands)
            if shape == "xstage" and cands is holders and r.random() < 0.75:
                h = r.choice(funcs[:max(1, nfuncs // 3)])
            value_fn = isinstance(h, Func) and h.returns_value
            if e is not None and s is not None:
                if r.random() < 0.5:
                    e = None
                else:
                    s = None
            site = place(r, e, s, value_fn, h.name not in used_return)
            if site == "return_expr":
                used_return.add(h.name)
            if site in E_SITES and e is None:
                site = r.choice(S_SITES)
            if site == "for_update" and s is not None and s.lstrip().startswith("{"):
                site = "for_body"  # a compound statement is not allowed in the update clause
            h.actions.append(Action("access", site, glob=globs, form=form,
                                    expr=e if site in E_SITES or s is None else None,
                                    stmt=s if site in S_SITES else None))
    for h in holders:
        r.shuffle(h.actions)
    return shape


def finish_entries(r, spec, namer, simple=True):
    """give every entry point a valid signature"""
    for e in spec.entries:
        if e.stage == "vertex":
            if not e.result:
                e.result = {"kind": "position"}
        elif e.stage == "fragment":
            if e.result is None and r.random() < 0.7:
                e.result = {"kind": "location", "location": 0, "ty": "vec4<f32>"}
        else:
            if e.workgroup_size is None:
                dims = r.randint(1, 3)
                e.workgroup_size = [r.choice([1, 2, 4, 8]) for _ in range(dims)]
                e.workgroup_expected = e.workgroup_size + [1] * (3 - dims)


def spec_globals_so_far(spec):
    if not hasattr(spec, "_pending_globals"):
        spec._pending_globals = []
    return spec._pending_globals


# ---------------------------------------------------------------------------------------------
# families


def twin_group(r, spec, namer):
    """a further group with the same binding indices and WGSL types as an existing one, but
    another address space / access mode (the two layouts must still differ)"""
    res = [g for g in spec.globals if g.is_resource()]
    groups = sorted({g.group for g in res})
    if not groups or len(groups) >= 8:
        return
    src = r.choice(groups)
    new = len(groups)
    for g in [x for x in res if x.group == src]:
        t = Global(namer.fresh("g"), g.kind, space=g.space, access=g.access, ty=g.ty,
                   tex=dict(g.tex) if g.tex else None, comparison=g.comparison, group=new,
                   binding=g.binding)
        if g.kind == "buffer":
            no_rt = not (g.ty[0] == "a" and g.ty[2] is None) and not (
                g.ty[0] == "st" and W.has_runtime_array(spec.structs[g.ty[1]]))
            has_at = W.contains_kind(g.ty, spec.structs, ()) or "atomic" in W.wgsl(g.ty) or (
                g.ty[0] == "st" and any("atomic" in W.wgsl(m["ty"])
                                         for n in [g.ty[1]] + W.reachable_structs(g.ty, spec.structs)
                                         for m in spec.structs[n].members))
            if g.space == "storage" and not has_at:
                t.access = "read" if g.access == "read_write" else "read_write"
            elif g.space == "uniform" and no_rt:
                t.space, t.access = "storage", "read"
        spec.globals.append(t)


def free_binding(decls, group):
    used = {g.binding for g in decls if g.group == group}
    b = 0
    while b in used:
        b += 1
    return b


def fam_bind(r, idx, sweep=None, pc_only=False):
    """resource bindings of every kind, sparse/unordered indices, call graphs: C02 C03 C04 C13"""
    spec = ShaderSpec()
    spec.families = ["bind"]
    namer = Namer(r)
    ngroups = r.choice([1, 1, 2, 2, 3, 4, 5, 8])
    if pc_only:
        ngroups = 0  # the push constant is the only module-scope variable
    no_entries = pc_only == "noentry"
    sweep = list(sweep or [])
    decls = []
    for gi in range(ngroups):
        nb = r.randint(1, 5)
        if sweep and gi == ngroups - 1:
            nb = max(nb, len(sweep))
        idxs = index_list(r, nb)
        for b in idxs:
            item = sweep.pop() if sweep else None
            g_ = rand_resource(r, spec, namer, gi, b, item)
            decls.append(g_)
            spec_globals_so_far(spec).append(g_)
    # make sure samplers have something to sample
    if any(g.kind == "sampler" and not g.comparison for g in decls) and \
            not any(g.kind == "texture" and g.tex["cls"] == "sampled" and
                    g.tex["sample"] == "f32" and g.tex["dim"] in ("2d", "3d", "cube")
                    for g in decls):
        decls.append(Global(namer.fresh("g"), "texture",
                            tex={"cls": "sampled", "dim": "2d", "sample": "f32"},
                            group=0, binding=free_binding(decls, 0)))
    if any(g.kind == "sampler" and g.comparison for g in decls) and \
            not any(g.kind == "texture" and g.tex["cls"] == "depth" for g in decls):
        decls.append(Global(namer.fresh("g"), "texture", tex={"cls": "depth", "dim": "2d"},
                            group=0, binding=free_binding(decls, 0)))
    r.shuffle(decls)  # declaration order unrelated to index order
    spec.globals = decls
    if r.random() < 0.4 or ngroups == 0:
        ty = r.choice([W.S("f32"), W.V(2, "f32"), W.V(3, "f32"), W.V(4, "f32"), W.V(3, "u32"),
                       W.M(4, 4), W.M(3, 3), W.M(2, 3), W.A(W.V(4, "f32"), 2),
                       W.A(W.V(3, "f32"), 2), W.A(W.S("u32"), 5), None, None])
        if ty is None:
            ty = W.ST(make_struct(r, spec, namer, [], depth=1, f64=0, attrs=0.1))
        if W.align_size(ty, spec.structs)[1] <= 128:
            spec.globals.append(Global(namer.fresh("pc"), "push", ty=ty))
    if r.random() < 0.2 and ngroups:
        spec.globals.append(Global(namer.fresh("pv"), "private", ty=r.choice(
            [W.S("f32"), W.V(4, "f32"), W.S("bool")])))
    stages = [] if no_entries else r.choice(
        [["fragment", "vertex"], ["vertex", "fragment"], ["compute", "fragment"],
         ["vertex", "fragment", "compute"]]) if not ngroups else \
        r.choice([[]] if r.random() < 0.04 else
                      [["vertex"], ["fragment"], ["compute"], ["vertex", "fragment"],
                       ["vertex", "fragment"], ["vertex", "fragment", "compute"],
                       ["fragment", "compute"], ["compute"], ["vertex", "compute"]])
    if "compute" in stages and r.random() < 0.3 and ngroups:
        spec.globals.append(Global(namer.fresh("wg"), "workgroup", ty=r.choice(
            [W.A(W.S("f32"), 8), W.AT("u32"), W.V(4, "f32")])))
    if r.random() < 0.2:
        twin_group(r, spec, namer)
    # private / workgroup / push-constant declarations anywhere among the resources
    r.shuffle(spec.globals)
    shape = build_graph(r, spec, namer, r.choice([0, 1, 2, 3, 4, 6, 9, 14]), stages,
                        **({"entries_per_stage": (2, 3), "unreached": 0.0,
                            "accesses_per_global": (1, 2)} if ngroups == 0 else {}))
    spec.families.append("graph:" + shape)
    pcs = [g for g in spec.globals if g.kind == "push"]
    directed_pc = bool(pc_only and pcs and not no_entries)
    if pc_only and pcs and not no_entries and r.random() < 0.5:
        # every variable of the module is already known to a stage when a second entry point
        # of that stage comes along; an entry point of ANOTHER stage follows and uses it too
        sa, sb = r.sample(["vertex", "fragment", "compute"], 2)
        pre = {"vertex": "vs_", "fragment": "fs_", "compute": "cs_"}
        a1, a2, b1 = (Entry(namer.fresh(pre[sa]), sa), Entry(namer.fresh(pre[sa]), sa),
                      Entry(namer.fresh(pre[sb]), sb))
        for e in (a1, b1):
            forms = buffer_forms(pcs[0], spec.structs, prefer=r.randrange(8))
            form, e_, s_ = forms[0]
            addr = [f_ for f_ in forms if f_[0] == "addr_only"]
            if e is b1 and addr and r.random() < 0.6:
                # the second stage only takes the address (a static use without a load)
                form, e_, s_ = addr[0]
            e.actions.append(Action("access", "top", glob=[pcs[0].name], form=form, expr=e_,
                                    stmt=s_ if e_ is None else None))
        spec.entries = [a1, a2, b1] + [e for e in spec.entries if r.random() < 0.4]
    elif pc_only and pcs and not no_entries:
        # (i) stages interleaved A B A, a helper reading the push constant called by B and the
        # later A only; (ii) the push constant behind a chain of 20 helpers
        for h_ in spec.funcs + spec.entries:
            h_.actions = [a for a in h_.actions if not (a.what == "access" and
                                                        pcs[0].name in (a.glob or []))]
        sa, sb = r.sample(["vertex", "fragment", "compute"], 2)
        pre = {"vertex": "vs_", "fragment": "fs_", "compute": "cs_"}
        leaf = Func(namer.fresh("fn_pcleaf_"), r.random() < 0.5)
        form, e_, s_ = buffer_forms(pcs[0], spec.structs, prefer=r.randrange(8))[0]
        leaf.actions.append(Action("access", r.choice(S_SITES[:13]), glob=[pcs[0].name], form=form,
                                   expr=e_, stmt=None))
        chain = [leaf]
        depth = r.choice([0, 17, 20, 33])
        for k in range(depth):
            f = Func(namer.fresh("fn_pcchain_"), chain[-1].returns_value and r.random() < 0.5)
            prev_ = chain[-1]
            if prev_.returns_value:
                f.actions.append(Action("call", "let_init", callee=prev_.name,
                                        expr="%s()" % prev_.name, stmt=None))
            else:
                f.actions.append(Action("call", r.choice(S_SITES[:13]), callee=prev_.name,
                                        expr=None, stmt="%s();" % prev_.name))
            chain.append(f)
        spec.funcs += chain
        top = chain[-1]

        def calls_top(e):
            if top.returns_value:
                e.actions.append(Action("call", "let_init", callee=top.name,
                                        expr="%s()" % top.name, stmt=None))
            else:
                e.actions.append(Action("call", "top", callee=top.name, expr=None,
                                        stmt="%s();" % top.name))
        a1, b1, a2 = Entry(namer.fresh(pre[sa]), sa), Entry(namer.fresh(pre[sb]), sb), \
            Entry(namer.fresh(pre[sa]), sa)
        calls_top(b1)
        calls_top(a2)
        spec.entries = [a1, b1, a2]
        sc = [s_ for s_ in ("vertex", "fragment", "compute") if s_ not in (sa, sb)][0]
        if depth or r.random() < 0.5:
            # an entry point of the third stage that stays out (so "unused, every stage" and
            # "used by two stages" differ)
            spec.entries.insert(r.randint(0, 3), Entry(namer.fresh(pre[sc]), sc))
    if pcs and spec.entries and not directed_pc and r.random() < 0.6:
        # the push constant is (also) read by a dedicated helper without return value that one
        # or two entry points call from a random statement position (incl. continuing blocks
        # and for-update clauses)
        h = Func(namer.fresh("fn_pc_"), False)
        form, e_, s_ = buffer_forms(pcs[0], spec.structs, prefer=r.randrange(8))[0]
        h.actions.append(Action("access", r.choice(S_SITES), glob=[pcs[0].name], form=form,
                                expr=e_, stmt=None))
        mid = Func(namer.fresh("fn_pcmid_"), False)
        mid.actions.append(Action("call", r.choice(S_SITES), callee=h.name, expr=None,
                                  stmt="%s();" % h.name))
        spec.funcs += [h, mid]
        def call(e, callee):
            e.actions.append(Action("call", r.choice(S_SITES), callee=callee.name,
                                    expr=None, stmt="%s();" % callee.name))
        aux = Func(namer.fresh("fn_aux_"), False)  # touches nothing
        spec.funcs.append(aux)
        pat = r.random()
        for e_ in spec.entries:
            pass
        n_stages = len({e_.stage for e_ in spec.entries})
        if n_stages < 2:
            pat = max(pat, 0.7)  # the directed patterns need a second stage that stays out
        if pat < 0.65:
            # in the directed patterns the leaf helper is the ONLY reader of the push constant
            for h_ in spec.funcs + spec.entries:
                if h_ is not h:
                    h_.actions = [a for a in h_.actions if not (
                        a.what == "access" and pcs[0].name in (a.glob or []))]
        by_stage = {}
        for e in spec.entries:
            by_stage.setdefault(e.stage, []).append(e)
        if pat < 0.3 and len(by_stage) >= 2:
            # diamond across two stages: an earlier entry point calls the leaf and then the
            # middle helper, a later one of another stage only the middle helper (or mirrored)
            e1 = spec.entries[0]
            later = [e for e in spec.entries[1:] if e.stage != e1.stage]
            e2 = r.choice(later)
            for c_ in r.choice([[h, mid], [h, mid], [mid, h]]):
                call(e1, c_)
            call(e2, mid)
        elif pat < 0.65:
            # the reader first, then some helper called more than once in the same body (one
            # entry point of one stage: every other stage stays out)
            e = r.choice(spec.entries)
            for c_ in r.choice([[h, mid, mid], [h, aux, aux], [mid, aux, aux], [h, aux, aux, mid],
                                [h, aux, aux], [mid, h, h], [aux, h, aux]]):
                call(e, c_)
        else:
            for e in r.sample(spec.entries, min(len(spec.entries), r.choice([1, 2, 2, 3]))):
                # the leaf directly, through the middle helper, or both in either order
                for callee in r.choice([[h], [mid], [h, mid], [mid, h], [mid]]):
                    call(e, callee)
    if pcs and ngroups and r.random() < 0.12:
        # the push constant is used by nobody, some other variable by one stage, and an entry
        # point of another stage touches nothing at all: the fallback is "every stage that has
        # an entry point"
        for h_ in spec.funcs + spec.entries:
            h_.actions = [a for a in h_.actions if not (a.what == "access" and
                                                        pcs[0].name in (a.glob or []))]
        spec.funcs = [f for f in spec.funcs if not f.name.startswith(("fn_pc_", "fn_pcmid_"))]
        for h_ in spec.funcs + spec.entries:
            h_.actions = [a for a in h_.actions if not (a.what == "call" and a.callee.startswith(
                ("fn_pc_", "fn_pcmid_")))]
        idle = [s_ for s_ in ("vertex", "fragment", "compute") if s_ not in stages]
        if idle:
            spec.entries.append(Entry(namer.fresh({"vertex": "vs_", "fragment": "fs_",
                                                   "compute": "cs_"}[idle[0]]), idle[0]))
        elif len(spec.entries) > 1:
            spec.entries[-1].actions = []
    if r.random() < 0.15:
        saturating_entries(r, spec, namer, stages)
    if ngroups and len(set(stages)) == 1 and spec.entries and r.random() < 0.5:
        single_stage_saturation(r, spec, namer, stages[0])
    if r.random() < 0.15 and ngroups and spec.entries:
        interleaved_entries(r, spec, namer)
    finish_entries(r, spec, namer)
    if r.random() < 0.07:
        alias_binding(r, spec, namer)
    elif ngroups >= 2 and r.random() < 0.05:
        # a gap in the group numbering (the last group moves up by one): must be refused,
        # with or without validation
        top = max(g.group for g in spec.globals if g.is_resource())
        for g in spec.globals:
            if g.is_resource() and g.group == top:
                g.group = top + 1
        spec.expect_decline = "NonConsecutiveBindGroups"
        spec.must_decline = True
    spec.decl_order = r.choice(["default", "default", "functions_first", "entries_first"])
    return spec


def fam_many_helpers(r, idx):
    """40-70 helpers, each reading its own uniform; entry points of two stages call many of
    them in index order (bookkeeping per function index must not alias)"""
    spec = ShaderSpec()
    spec.families = ["bind", "many-helpers"]
    namer = Namer(r, nonascii=0.0)
    n = r.choice([40, 48, 66, 70])
    for k in range(n):
        spec.globals.append(Global("ub%d" % k, "buffer", space="uniform", access=None,
                                   ty=W.V(4, "f32"), group=k // 16, binding=k % 16))
    for k in range(n):
        f = Func("helper_%d" % k, r.random() < 0.5)
        form, e_, s_ = buffer_forms(spec.globals[k], spec.structs, prefer=r.randrange(8))[0]
        f.actions.append(Action("access", r.choice(S_SITES[:13]), glob=["ub%d" % k], form=form,
                                expr=e_, stmt=None))
        spec.funcs.append(f)
    stages = r.sample(["vertex", "fragment", "compute"], 2)
    picks = [list(range(n)), sorted(r.sample(range(n), n // 2))]
    # pairs 32 and 64 apart in one body
    k0 = r.randrange(0, n - 33)
    picks.append([k0, k0 + 32] + ([k0 + 64] if k0 + 64 < n else []))
    for i, st in enumerate(stages + [stages[0]]):
        e = Entry(namer.fresh({"vertex": "vs_", "fragment": "fs_", "compute": "cs_"}[st]), st)
        for k in picks[i]:
            f = spec.funcs[k]
            if f.returns_value:
                e.actions.append(Action("call", "let_init", callee=f.name, expr="%s()" % f.name,
                                        stmt=None))
            else:
                e.actions.append(Action("call", "top", callee=f.name, expr=None,
                                        stmt="%s();" % f.name))
        spec.entries.append(e)
    finish_entries(r, spec, namer)
    return spec


def interleaved_entries(r, spec, namer):
    """stages interleaved in declaration order (A ... B A): a helper that only the LAST two
    entry points call reads a resource nothing else touches - per-stage bookkeeping that is
    carried from one entry point to the next must not hide it from the second stage"""
    a = spec.entries[0].stage
    b = r.choice([s for s in ("vertex", "fragment", "compute") if s != a])
    res = Global(namer.fresh("g_il"), "buffer", space="uniform", access=None, ty=W.V(4, "f32"),
                 group=0, binding=free_binding([g for g in spec.globals if g.is_resource()], 0))
    spec.globals.append(res)
    h = Func(namer.fresh("fn_il_"), r.random() < 0.5)
    form, e_, s_ = buffer_forms(res, spec.structs, prefer=r.randrange(8))[0]
    h.actions.append(Action("access", r.choice(S_SITES), glob=[res.name], form=form, expr=e_,
                            stmt=None))
    spec.funcs.append(h)
    pre = {"vertex": "vs_", "fragment": "fs_", "compute": "cs_"}
    for st in (b, a):
        e = Entry(namer.fresh(pre[st]), st)
        if h.returns_value:
            e.actions.append(Action("call", "let_init", callee=h.name, expr="%s()" % h.name,
                                    stmt=None))
        else:
            e.actions.append(Action("call", r.choice(S_SITES), callee=h.name, expr=None,
                                    stmt="%s();" % h.name))
        spec.entries.append(e)


def single_stage_saturation(r, spec, namer, stage):
    """a module with ONE stage: the first entry point touches some resources plus exactly as
    many non-resource variables as there are resources it does not touch; a later entry point
    of the same stage uses the rest (counting variables says nothing about which ones)"""
    res = [g for g in spec.globals if g.is_resource()]
    if len(res) < 2:
        return
    m = r.randint(1, min(2, len(res) - 1))
    rest = r.sample([g for g in res if g.kind == "buffer"] or res, 1)
    rest += r.sample([g for g in res if g not in rest], m - 1)
    pvs = []
    for k in range(m):
        pv = Global(namer.fresh("pv_one"), "private", ty=W.S("f32"))
        spec.globals.insert(r.randint(0, len(spec.globals)), pv)
        pvs.append(pv)
    pre = {"vertex": "vs_", "fragment": "fs_", "compute": "cs_"}[stage]
    e1, e2 = Entry(namer.fresh(pre), stage), Entry(namer.fresh(pre), stage)

    def touch(e, g, avoid):
        acc = [a for a in possible_accesses(spec, g, r)
               if not any(x.name in a[0] for x in avoid if x is not g)]
        if not acc:
            return
        globs, form, ex, stm = acc[0]
        e.actions.append(Action("access", "top", glob=globs, form=form, expr=ex,
                                stmt=stm if ex is None else None))
    for g in res:
        if g not in rest:
            touch(e1, g, rest)
    for pv in pvs:
        touch(e1, pv, rest)
    for g in rest:
        touch(e2, g, [])
    if not e2.actions:
        return
    # these two come FIRST, every older entry point after them: nothing has been seen before
    # the first one, and the rest of the module must not hide what the second one loses
    for h_ in spec.funcs + spec.entries:
        h_.actions = [a for a in h_.actions if not (a.what == "access" and any(
            x.name in (a.glob or []) for x in rest))]
    spec.entries = [e1, e2] + spec.entries


def saturating_entries(r, spec, namer, stages):
    """two entry points of a stage nothing else in the shader has: the first one uses every
    resource but one plus exactly one private variable, the second one only the remaining
    resource (the number of variables a stage has touched says nothing about WHICH ones)"""
    free = [s for s in ("compute", "fragment", "vertex") if s not in stages]
    res = [g for g in spec.globals if g.is_resource()]
    if not free or len(res) < 2 or not spec.entries:
        return
    stage = free[0]
    bufs = [g for g in res if g.kind == "buffer"]
    last = r.choice(bufs) if bufs else r.choice(res)
    pv = Global(namer.fresh("pv_sat"), "private", ty=W.S("f32"))
    spec.globals.insert(r.randint(0, len(spec.globals)), pv)
    pre = {"vertex": "vs_", "fragment": "fs_", "compute": "cs_"}[stage]
    e1, e2 = Entry(namer.fresh(pre), stage), Entry(namer.fresh(pre), stage)

    def touch(e, g):
        acc = [a for a in possible_accesses(spec, g, r) if last.name not in a[0] or g is last]
        if g is last:
            acc = [a for a in acc if a[0] == [last.name]]
        if not acc:
            return
        globs, form, ex, stm = acc[0]
        e.actions.append(Action("access", "top", glob=globs, form=form, expr=ex,
                                stmt=stm if ex is None else None))
    for g in res:
        if g is not last:
            touch(e1, g)
    touch(e1, pv)
    touch(e2, last)
    if not e2.actions:
        return
    spec.entries += [e1, e2]


def alias_binding(r, spec, namer):
    """a further, unused resource variable declared at the (group, binding) of an existing one
    (legal WGSL as long as no entry point uses both): the tool has to refuse the shader with
    DuplicateBinding, whatever lies between the two declarations"""
    res = [g for g in spec.globals if g.is_resource()]
    if not res:
        return
    by_group = {}
    for g in res:
        by_group.setdefault(g.group, []).append(g)
    crowded = [gs for gs in by_group.values() if len(gs) >= 2]
    gs = r.choice(crowded) if crowded and r.random() < 0.8 else r.choice(list(by_group.values()))
    first = gs[0]
    t = Global(namer.fresh("dup"), first.kind, space=first.space, access=first.access,
               ty=first.ty, tex=dict(first.tex) if first.tex else None,
               comparison=first.comparison, group=first.group, binding=first.binding)
    if r.random() < 0.5:
        # another resource class at the same slot
        t = Global(namer.fresh("dup"), "buffer", space="uniform", access=None,
                   ty=W.V(4, "f32"), group=first.group, binding=first.binding)
    # after a later declaration of the same group when there is one, else anywhere later
    later = [spec.globals.index(g) for g in gs[1:]]
    pos = (r.choice(later) + 1) if later and r.random() < 0.8 else \
        r.randint(spec.globals.index(first) + 1, len(spec.globals))
    spec.globals.insert(pos, t)
    spec.expect_decline = "DuplicateBinding"
    spec.must_decline = True


def fam_struct(r, idx):
    """struct layouts, roles, nestings: C05 C06 C08 C09 C10"""
    spec = ShaderSpec()
    spec.families = ["struct"]
    namer = Namer(r, nonascii=0.03)
    roles = {}
    # leaf-level structs, then composites
    pool = []
    style = r.choice(["host", "host", "friendly", "roles", "roles", "glam10", "glam10", "uniform",
                      "friendly", "chain", "deepvin"])
    spec.families.append(style)
    stages = []
    if style in ("host", "uniform", "glam10", "friendly", "chain"):
        n = r.randint(1, 3) if style != "chain" else r.randint(3, 4)
        for i in range(n):
            if style == "uniform":
                s = uniform_safe_struct(r, spec, namer)
            elif style == "friendly":
                s = friendly_struct(r, spec, namer, pool)
            elif style == "chain":
                # every struct contains the previous one (directly, in an array, in an array of
                # arrays): reachability through >= 3 levels
                s = friendly_struct(r, spec, namer, [])
                if pool:
                    inner = W.ST(pool[-1])
                    wrap = r.choice([inner, W.A(inner, 2), W.A(W.A(inner, 2), 2), inner])
                    spec.structs[s].members.insert(
                        r.randint(0, len(spec.structs[s].members)),
                        {"name": namer.fresh("inner"), "ty": wrap})
            elif style == "glam10":
                s = glam_struct(r, spec, namer, pool)
            elif r.random() < 0.2:
                s = isolated_struct(r, spec, namer)
            else:
                s = make_struct(r, spec, namer, list(pool), depth=2, f64=0.08,
                                atomics=r.random() < 0.15)
            pool.append(s)
        if style in ("host", "friendly", "glam10") and r.random() < 0.25 and pool:
            # two structs with different names and identical bodies, both used as members
            a = pool[0]
            b = namer.fresh("Twin")
            b = b[0].upper() + b[1:]
            spec.structs[b] = W.StructDef(b, [dict(m) for m in spec.structs[a].members])
            holder = namer.fresh("Pair")
            holder = holder[0].upper() + holder[1:]
            spec.structs[holder] = W.StructDef(holder, [
                {"name": namer.fresh("first"), "ty": W.ST(a)},
                {"name": namer.fresh("second"), "ty": W.ST(b)},
                {"name": namer.fresh("more"), "ty": W.A(W.ST(b), 2)},
                {"name": namer.fresh("again"), "ty": W.ST(a)}])
            if not any(W.has_runtime_array(spec.structs[x]) for x in (a,)):
                pool.append(holder)
            else:
                del spec.structs[holder]
                del spec.structs[b]
        root = pool[-1]
        space = "uniform" if style == "uniform" else "storage"
        form = r.choice(["direct", "direct", "array", "rtarray", "rtmember"]) \
            if space == "storage" else "direct"
        ty = W.ST(root)
        if form == "array":
            ty = W.A(ty, r.choice([1, 2, 3]))
        elif form == "rtarray":
            ty = W.A(ty, None)
        elif form == "rtmember":
            w = namer.fresh("Rt")
            w = w[0].upper() + w[1:]
            spec.structs[w] = W.StructDef(w, [
                {"name": "count", "ty": W.S("u32")},
                {"name": "items", "ty": W.A(r.choice([ty, W.V(3, "f32"), W.V(4, "f32"),
                                                      W.S("f32"), W.M(3, 3)]), None)}])
            ty = W.ST(w)
        has_atomic = W.contains_kind(ty, spec.structs, ()) or any(
            m["ty"][0] == "at" or (m["ty"][0] == "a" and m["ty"][1][0] == "at")
            for s in spec.structs.values() for m in s.members)
        acc = "read_write" if (has_atomic or r.random() < 0.5) else "read"
        spec.globals.append(Global(namer.fresh("g"), "buffer", space=space,
                                   access=acc if space == "storage" else "read", ty=ty,
                                   group=0, binding=0))
        if style == "glam10" and r.random() < 0.5:
            # also bind something uniform-safe for UniformBuffer writes
            u = uniform_safe_struct(r, spec, namer)
            spec.globals.append(Global(namer.fresh("g"), "buffer", space="uniform", access="read",
                                       ty=W.ST(u), group=0, binding=1))
        stages = ["compute"]
    elif style == "deepvin":
        # a vertex input struct that is host-shareable only through a member of a member
        b = io_struct(r, spec, namer, "Both", types=[W.V(4, "f32"), W.V(2, "f32"), W.S("f32"),
                                                      W.V(4, "u32"), W.V(3, "f32")],
                      flat_ints=False)
        if r.random() < 0.5:
            spec.structs[b].members = [
                {"name": namer.fresh("a"), "ty": W.S("f32"), "location": 0},
                {"name": namer.fresh("a"), "ty": W.S("f32"), "location": 1, "align": 8},
                {"name": namer.fresh("a"), "ty": W.V(4, "f32"), "location": 2}]
        w1 = namer.fresh("Wrap")
        w1 = w1[0].upper() + w1[1:]
        spec.structs[w1] = W.StructDef(w1, [{"name": "n", "ty": W.V(4, "u32")},
                                            {"name": "items", "ty": r.choice(
                                                [W.A(W.ST(b), 2), W.ST(b)])}])
        w2 = namer.fresh("Outer")
        w2 = w2[0].upper() + w2[1:]
        spec.structs[w2] = W.StructDef(w2, [{"name": "w", "ty": W.ST(w1)}])
        spec.globals.append(Global(namer.fresh("g"), "buffer", space="storage", access="read",
                                   ty=W.ST(w2), group=0, binding=0))
        v = Entry(namer.fresh("vs_"), "vertex")
        v.params = [{"name": "b", "struct": b}]
        v.result = {"kind": "position"}
        spec.entries = [v]
        spec.funcs = []
        stages = None
    else:
        role_structs(r, spec, namer)
        stages = None
    if stages is not None:
        build_graph(r, spec, namer, r.choice([0, 0, 1]), stages, entries_per_stage=(1, 1),
                    accesses_per_global=(1, 2), unreached=0.0)
        finish_entries(r, spec, namer)
    return spec


def friendly_struct(r, spec, namer, pool):
    """members whose Rust layout equals the WGSL layout under every representation (so that the
    accepted quadrant of C05 is well populated): 16-byte multiples and groups of scalars"""
    name = namer.fresh("F")
    name = name[0].upper() + name[1:]
    ms = []
    for i in range(r.randint(1, 5)):
        k = r.random()
        if k < 0.35:
            ty = r.choice([W.V(4, "f32"), W.V(4, "u32"), W.V(4, "i32"), W.M(4, 4), W.M(2, 4),
                           W.M(3, 4)])
            ms.append({"name": namer.fresh("m"), "ty": ty})
        elif k < 0.55:
            ms.append({"name": namer.fresh("m"), "ty": W.A(r.choice([W.V(4, "f32"), W.M(4, 4)]),
                                                          r.choice([1, 2, 3]))})
        elif k < 0.7 and pool:
            ms.append({"name": namer.fresh("m"), "ty": W.ST(r.choice(pool))})
        else:
            for j in range(4):
                ms.append({"name": namer.fresh("m"), "ty": W.S(r.choice(["f32", "u32", "i32"]))})
    spec.structs[name] = W.StructDef(name, ms)
    return name


def isolated_struct(r, spec, namer):
    """exactly one member offset differs from the Rust layout under some representation while
    all later offsets and the size agree (so that every single offset assertion matters)"""
    name = namer.fresh("Iso")
    name = name[0].upper() + name[1:]
    ms = r.choice([
        [("f32", W.S("f32"), None), ("al8", W.S("f32"), 8), ("v4", W.V(4, "f32"), None)],
        [("f32", W.S("f32"), None), ("m2", W.M(2, 2), None), ("v4", W.V(4, "f32"), None)],
        [("u", W.S("u32"), None), ("al8", W.S("u32"), 8), ("m4", W.M(4, 4), None)],
        [("v4", W.V(4, "f32"), None), ("f", W.S("f32"), None), ("al8", W.S("f32"), 8),
         ("w", W.V(4, "f32"), None)],
    ])
    spec.structs[name] = W.StructDef(name, [
        dict({"name": namer.fresh(n), "ty": t}, **({"align": a} if a else {})) for n, t, a in ms])
    return name


def glam_struct(r, spec, namer, pool):
    """members glam can represent (C10): f32/i32/u32 scalars and vectors, square f32 matrices,
    arrays, nested structs, explicit @size/@align, vec3 traps"""
    name = namer.fresh("G")
    name = name[0].upper() + name[1:]
    ms = []
    leafs = [W.S("f32"), W.S("i32"), W.S("u32"), W.V(2, "f32"), W.V(3, "f32"), W.V(4, "f32"),
             W.V(2, "i32"), W.V(3, "i32"), W.V(4, "i32"), W.V(2, "u32"), W.V(3, "u32"),
             W.V(4, "u32"), W.M(2, 2), W.M(3, 3), W.M(4, 4)]
    for i in range(r.randint(1, 6)):
        k = r.random()
        if k < 0.2:
            ty = W.A(r.choice(leafs), r.choice([1, 2, 3, 5]))
        elif k < 0.35 and pool:
            ty = W.ST(r.choice(pool))
        elif k < 0.45 and pool:
            ty = W.A(W.ST(r.choice(pool)), 2)
        elif k < 0.6:
            ty = r.choice([W.V(3, "f32"), W.S("f32"), W.M(3, 3), W.V(3, "u32")])
        else:
            ty = r.choice(leafs)
        m = {"name": namer.fresh("m"), "ty": ty}
        if r.random() < 0.12:
            a, s = W.align_size(ty, spec.structs)
            if r.random() < 0.5:
                m["align"] = a * 2
            else:
                m["size"] = W.round_up(4, s) + r.choice([4, 8, 16])
        ms.append(m)
    spec.structs[name] = W.StructDef(name, ms)
    return name


def io_struct(r, spec, namer, prefix, with_position=False, nloc=None, builtins=(), flat_ints=True,
              types=None, loc_pool=None):
    name = namer.fresh(prefix)
    name = name[0].upper() + name[1:]
    ms = []
    if with_position:
        ms.append({"name": namer.fresh("pos"), "ty": W.V(4, "f32"), "builtin": "position"})
    nloc = r.randint(1, 4) if nloc is None else nloc
    if loc_pool is not None:
        nloc = min(nloc, len(loc_pool))
        locs = [loc_pool.pop(r.randrange(len(loc_pool))) for _ in range(nloc)]
    else:
        locs = r.sample(range(0, 12), nloc)
    if r.random() < 0.5:
        locs.sort()
    types = types or [W.S("f32"), W.V(2, "f32"), W.V(3, "f32"), W.V(4, "f32"), W.V(4, "u32"),
                      W.S("u32"), W.V(2, "i32"), W.S("i32"), W.V(3, "u32")]
    for l in locs:
        ty = r.choice(types)
        m = {"name": namer.fresh("a"), "ty": ty, "location": l}
        kind = ty[1] if ty[0] == "s" else ty[2]
        if flat_ints and kind in ("i32", "u32"):
            m["interp"] = "flat"
        ms.append(m)
    for b, ty in builtins:
        ms.insert(r.randint(0, len(ms)), {"name": namer.fresh("bi"), "ty": ty, "builtin": b})
    spec.structs[name] = W.StructDef(name, ms)
    return name


def role_structs(r, spec, namer):
    """structs in every role: vertex-in only, stage-out only, out+in, fragment-in only, local
    only, private/workgroup/push reachable, host via nesting/arrays, unused"""
    host_leaf = make_struct(r, spec, namer, [], depth=1, f64=0, traps=True, attrs=0)
    host_root = make_struct(r, spec, namer, [host_leaf], depth=2, f64=0)
    if r.random() < 0.6:
        ms_ = spec.structs[host_root].members
        # first, last or in between: a walk over the members must reach it wherever it is
        ms_.insert(r.choice([0, 0, len(ms_), r.randint(0, len(ms_))]),
                   {"name": namer.fresh("nest"), "ty": r.choice([W.ST(host_leaf),
                                                                 W.A(W.ST(host_leaf), 2),
                                                                 W.A(W.A(W.ST(host_leaf), 2), 3)])})
    if r.random() < 0.12:
        # a struct type WGSL predeclares (ray queries), filled by the host like any other
        rd = W.StructDef("RayDesc", [{"name": "flags", "ty": W.S("u32")},
                                     {"name": "cull_mask", "ty": W.S("u32")},
                                     {"name": "tmin", "ty": W.S("f32")},
                                     {"name": "tmax", "ty": W.S("f32")},
                                     {"name": "origin", "ty": W.V(3, "f32")},
                                     {"name": "dir", "ty": W.V(3, "f32")}])
        rd.predeclared = True
        spec.structs["RayDesc"] = rd
        spec.structs[host_root].members.insert(
            r.randint(0, len(spec.structs[host_root].members)),
            {"name": namer.fresh("rays"), "ty": r.choice([W.ST("RayDesc"),
                                                          W.A(W.ST("RayDesc"), 2)])})
    spec.globals.append(Global(namer.fresh("g"), "buffer", space="storage", access="read_write",
                               ty=r.choice([W.ST(host_root), W.A(W.ST(host_root), 2),
                                            W.A(W.ST(host_root), None)]), group=0, binding=0))
    unused = make_struct(r, spec, namer, [], depth=0, f64=0, attrs=0)
    local = make_struct(r, spec, namer, [], depth=0, f64=0, attrs=0)
    spec.extra_decls.append("fn use_local() -> f32 { var l: %s; return f32(0); }" % local)
    if r.random() < 0.5:
        pv = make_struct(r, spec, namer, [], depth=0, f64=0, attrs=0)
        if r.random() < 0.15:
            spec.structs[pv].members.append({"name": namer.fresh("flag"), "ty": W.S("bool")})
        spec.globals.append(Global(namer.fresh("pv"), r.choice(["private", "workgroup"]),
                                   ty=W.ST(pv)))
    if r.random() < 0.4:
        pc = make_struct(r, spec, namer, [], nmembers=r.randint(1, 3), depth=0, f64=0, attrs=0)
        if W.align_size(W.ST(pc), spec.structs)[1] <= 128:
            spec.globals.append(Global(namer.fresh("pc"), "push", ty=W.ST(pc)))
    vpool = list(range(0, 14))
    vin = io_struct(r, spec, namer, "VIn", builtins=[("vertex_index", W.S("u32"))]
                    if r.random() < 0.5 else (), loc_pool=vpool)
    vin2 = io_struct(r, spec, namer, "Inst", loc_pool=vpool) if r.random() < 0.5 else None
    vout = io_struct(r, spec, namer, "VOut", with_position=True)
    fin = io_struct(r, spec, namer, "FIn", builtins=r.sample(
        [("front_facing", W.S("bool")), ("sample_index", W.S("u32")),
         ("position", W.V(4, "f32"))], r.choice([0, 1, 1, 2]))) if r.random() < 0.6 else None
    fout = io_struct(r, spec, namer, "FOut", flat_ints=False,
                     types=[W.V(4, "f32"), W.S("f32"), W.V(4, "u32"), W.V(2, "f32")],
                     builtins=[("frag_depth", W.S("f32"))] if r.random() < 0.4 else ()) \
        if r.random() < 0.7 else None
    if fout and r.random() < 0.3:
        # a stage output struct that is also the element type of a storage buffer
        spec.globals.append(Global(namer.fresh("g"), "buffer", space="storage",
                                   access="read_write", ty=r.choice(
                                       [W.A(W.ST(fout), None), W.ST(fout), W.A(W.ST(fout), 3)]),
                                   group=0, binding=7))
    elif r.random() < 0.2:
        spec.structs[host_root].members.append({"name": namer.fresh("vo"), "ty": W.ST(vout)})
    both = r.random() < 0.55  # a struct that is host-shareable AND a vertex input
    ents = []
    v = Entry(namer.fresh("vs_"), "vertex")
    v.params = [{"name": "vin", "struct": vin}]
    if vin2:
        v.params.append({"name": "inst", "struct": vin2})
    if r.random() < 0.4:
        v.params.insert(r.randint(0, len(v.params)), {"name": "ii", "builtin": "instance_index",
                                                      "ty": "u32"})
    v.result = {"kind": "struct", "struct": vout}
    ents.append(v)
    f = Entry(namer.fresh("fs_"), "fragment")
    f.params = [{"name": "fin", "struct": fin if fin else vout}]
    f.result = {"kind": "struct", "struct": fout} if fout else r.choice(
        [None, {"kind": "location", "location": 0, "ty": "vec4<f32>"}])
    ents.append(f)
    if r.random() < 0.5:
        c = Entry(namer.fresh("cs_"), "compute")
        c.workgroup_size = [1]
        c.workgroup_expected = [1, 1, 1]
        if r.random() < 0.5:
            # a struct taken as a parameter only by an entry point without a result
            cin = namer.fresh("CIn")
            cin = cin[0].upper() + cin[1:]
            spec.structs[cin] = W.StructDef(cin, [
                {"name": namer.fresh("gid"), "ty": W.V(3, "u32"),
                 "builtin": "global_invocation_id"},
                {"name": namer.fresh("lid"), "ty": W.S("u32"),
                 "builtin": "local_invocation_index"}][:r.randint(1, 2)])
            c.params = [{"name": "cin", "struct": cin}]
        ents.append(c)
    if r.random() < 0.35:
        # fragment entry without outputs (depth-only style) taking its own located struct
        f2 = Entry(namer.fresh("fs_"), "fragment")
        fin2 = io_struct(r, spec, namer, "FOnly")
        f2.params = [{"name": "fin", "struct": fin2}]
        f2.result = None
        ents.append(f2)
    if both:
        # the host root struct cannot carry locations; use a dedicated plain struct used both as
        # storage element and as vertex input
        b = io_struct(r, spec, namer, "Both", types=[W.V(4, "f32"), W.V(2, "f32"), W.S("f32"),
                                                      W.V(4, "u32")], flat_ints=False)
        if r.random() < 0.6:
            # exactly one member offset differs under glam while the size agrees
            spec.structs[b].members = [
                {"name": namer.fresh("a"), "ty": W.S("f32"), "location": 0},
                {"name": namer.fresh("a"), "ty": W.S("f32"), "location": 1, "align": 8},
                {"name": namer.fresh("a"), "ty": W.V(4, "f32"), "location": 2}]
        bty = r.choice([W.A(W.ST(b), 4), W.A(W.A(W.ST(b), 2), 3), W.A(W.ST(b), 4)])
        if r.random() < 0.5:
            # reachable only through a member of a member
            w1 = namer.fresh("Wrap")
            w1 = w1[0].upper() + w1[1:]
            wm = [{"name": "n", "ty": W.V(4, "u32")}, {"name": "items", "ty": bty}]
            if r.random() < 0.6:
                # the nested struct first, then members of types seen before (twice the same)
                wm = [{"name": "items", "ty": bty}, {"name": "n", "ty": W.V(4, "u32")},
                      {"name": "k", "ty": W.V(4, "u32")}]
            spec.structs[w1] = W.StructDef(w1, wm)
            w2 = namer.fresh("Outer")
            w2 = w2[0].upper() + w2[1:]
            spec.structs[w2] = W.StructDef(w2, [{"name": "w", "ty": W.ST(w1)}])
            bty = W.ST(w2)
        spec.globals.append(Global(namer.fresh("g"), "buffer", space="storage", access="read",
                                   ty=bty, group=0, binding=1))
        v2 = Entry(namer.fresh("vs_"), "vertex")
        v2.params = [{"name": "b", "struct": b}]
        v2.result = {"kind": "position"}
        ents.append(v2)
    if r.random() < 0.35:
        # two structs with identical bodies in opposite roles: one only returned by an entry
        # point, the other only taken as a parameter (a vertex buffer next to a fragment output,
        # or a fragment input mirroring the vertex output)
        if r.random() < 0.5:
            body = [{"name": "color", "ty": W.V(4, "f32"), "location": 0},
                    {"name": "uv", "ty": W.V(2, "f32"), "location": 1}][:r.randint(1, 2)]
            a_name, b_name = namer.fresh("VertexColor"), namer.fresh("FragmentOutput")
            spec.structs[a_name] = W.StructDef(a_name, [dict(m) for m in body])
            spec.structs[b_name] = W.StructDef(b_name, [dict(m) for m in body])
            v3 = Entry(namer.fresh("vs_"), "vertex")
            v3.params = [{"name": "vc", "struct": a_name}]
            v3.result = {"kind": "position"}
            f5 = Entry(namer.fresh("fs_"), "fragment")
            f5.result = {"kind": "struct", "struct": b_name}
            ents += [v3, f5] if r.random() < 0.5 else [f5, v3]
        else:
            m_name = namer.fresh("FragmentInputMirror")
            spec.structs[m_name] = W.StructDef(m_name, [dict(m) for m in
                                                        spec.structs[vout].members])
            f5 = Entry(namer.fresh("fs_"), "fragment")
            f5.params = [{"name": "fin", "struct": m_name}]
            f5.result = r.choice([None, {"kind": "location", "location": 0, "ty": "vec4<f32>"}])
            ents.append(f5)
    if r.random() < 0.3:
        # an entry point WITHOUT parameters returns a struct that another entry point takes
        vo0 = io_struct(r, spec, namer, "VOutNoArgs", with_position=True)
        v0 = Entry(namer.fresh("vs_"), "vertex")
        v0.params = []
        v0.result = {"kind": "struct", "struct": vo0}
        f0 = Entry(namer.fresh("fs_"), "fragment")
        f0.params = [{"name": "fin", "struct": vo0}]
        f0.result = r.choice([None, {"kind": "location", "location": 0, "ty": "vec4<f32>"}])
        ents += [v0, f0] if r.random() < 0.5 else [f0, v0]
    if r.random() < 0.3:
        # a struct that only fragment entry points return and that is also a parameter (the
        # same entry, or another one): a stage output, never filled by the host
        fl = io_struct(r, spec, namer, "FLoop", flat_ints=False,
                       types=[W.V(4, "f32"), W.S("f32"), W.V(2, "f32")])
        f3 = Entry(namer.fresh("fs_"), "fragment")
        f3.result = {"kind": "struct", "struct": fl}
        if r.random() < 0.5:
            f3.params = [{"name": "prev", "struct": fl}]
            ents.append(f3)
        else:
            f4 = Entry(namer.fresh("fs_"), "fragment")
            f4.params = [{"name": "prev", "struct": fl}]
            f4.result = r.choice([None, {"kind": "location", "location": 0, "ty": "vec4<f32>"}])
            ents += [f3, f4] if r.random() < 0.5 else [f4, f3]
    if r.random() < 0.25:
        # a struct reachable only through a workgroup array whose length is an override
        tile = make_struct(r, spec, namer, [], depth=0, f64=0, attrs=0)
        on = namer.fresh("tile_len_")
        spec.overrides.append({"name": on, "ty": "u32", "id": None, "default": "8u"})
        spec.globals.append(Global(namer.fresh("wg"), "workgroup", ty=W.A(W.ST(tile), 8),
                                   len_override=on))
    if r.random() < 0.4:
        # ordinary helper functions that take and RETURN an entry-parameter struct (only what
        # ENTRY POINTS return is a stage output)
        for s_ in [vin] + ([vin2] if vin2 else []) + ([fin] if fin else []):
            if r.random() < 0.6:
                spec.extra_decls.append("fn pass_%s(v: %s) -> %s { return v; }" % (s_, s_, s_))
    if r.random() < 0.3:
        # a module-scope constant of struct type: constants are not variables, the struct is
        # not filled by the host
        cs = namer.fresh("ConstOnly")
        cs = cs[0].upper() + cs[1:]
        spec.structs[cs] = W.StructDef(cs, [{"name": "dir", "ty": W.V(3, "f32")},
                                            {"name": "power", "ty": W.S("f32")}])
        spec.extra_decls.append("const SUN_%s = %s(vec3<f32>(0.0, -1.0, 0.0), 2.0);" % (cs, cs))
    spec.funcs = []
    if r.random() < 0.5:
        r.shuffle(ents)  # e.g. the consumer of an inter-stage struct before its producer
    spec.entries = ents
    # a couple of real accesses so that entries are not empty
    for e in ents:
        for g in spec.globals:
            if g.kind in ("buffer", "push") and r.random() < 0.6:
                acc = possible_accesses(spec, g, r)
                if acc:
                    globs, form, ex, st = acc[0]
                    e.actions.append(Action("access", "top", glob=globs, form=form, expr=ex,
                                            stmt=st if ex is None else None))
    spec.role_notes = {"unused": unused, "local": local, "vin": vin, "vin2": vin2, "vout": vout,
                       "fin": fin, "fout": fout}


def fam_entry(r, idx):
    """entry points, vertex inputs, fragment outputs, workgroup sizes, overrides: C07 C12 C14"""
    spec = ShaderSpec()
    spec.families = ["entry"]
    namer = Namer(r, nonascii=0.1)
    vtypes = [W.S("f32"), W.V(2, "f32"), W.V(3, "f32"), W.V(4, "f32"), W.S("i32"), W.V(2, "i32"),
              W.V(3, "i32"), W.V(4, "i32"), W.S("u32"), W.V(2, "u32"), W.V(3, "u32"),
              W.V(4, "u32")]
    if r.random() < 0.15:
        vtypes += [W.S("f64"), W.V(2, "f64"), W.V(3, "f64"), W.V(4, "f64")]
    # overrides
    if r.random() < 0.6:
        used_ids = set()
        for i in range(r.randint(1, 5)):
            ty = r.choice(["bool", "i32", "u32", "f32"])
            oid = None
            if r.random() < 0.45:
                oid = r.choice([x for x in [0, 1, 2, 7, 42, 100, 65535] if x not in used_ids])
                used_ids.add(oid)
            default = None
            if r.random() < 0.55:
                default = {"bool": r.choice(["true", "false"]),
                           "i32": r.choice(["-3", "0", "7", "2147483647"]),
                           "u32": r.choice(["0u", "9u", "4294967295u"]),
                           "f32": r.choice(["1.5", "-0.25", "0.0", "3.0e10"])}[ty]
                if ty == "f32" and spec.overrides and spec.overrides[-1]["ty"] == "f32" \
                        and r.random() < 0.4:
                    default = "%s * 2.0" % spec.overrides[-1]["name"]
            same = [o for o in spec.overrides if o["ty"] == ty]
            if same and r.random() < 0.3:
                # the default IS another override (which may itself have no default): the
                # declaration still has a default, so the field stays optional
                default = r.choice(same)["name"]
            ov = {"name": namer.fresh("ov_"), "ty": ty, "id": oid, "default": default}
            if r.random() < 0.08 and oid is None and not any(o["name"] == "gen"
                                                             for o in spec.overrides):
                ov["name"] = "gen"  # an identifier for WGSL, a keyword of a later Rust edition
            if r.random() < 0.2:
                # declared through a type alias
                an = namer.fresh("Alias")
                an = an[0].upper() + an[1:]
                spec.extra_decls.append("alias %s = %s;" % (an, ty))
                ov["decl_ty"] = an
            spec.overrides.append(ov)
    if len(spec.overrides) >= 2 and r.random() < 0.3:
        # a default that uses an override declared LATER in the file, of another scalar type
        i = r.randrange(len(spec.overrides) - 1)
        j = r.randrange(i + 1, len(spec.overrides))
        a, b = spec.overrides[i], spec.overrides[j]
        refs_back = b.get("default") and any(o["name"] in str(b["default"])
                                             for o in spec.overrides[:j])
        if not refs_back:
            conv = {("bool", "i32"): "%s > 0", ("bool", "u32"): "%s > 0u", ("bool", "f32"): "%s > 0.0",
                    ("bool", "bool"): "!%s", ("i32", "i32"): "%s / 2", ("u32", "u32"): "%s / 2u",
                    ("f32", "f32"): "%s * 0.5", ("f32", "i32"): "f32(%s)", ("f32", "u32"): "f32(%s)",
                    ("i32", "u32"): "i32(%s)", ("u32", "i32"): "u32(%s)", ("i32", "f32"): "i32(%s)",
                    ("u32", "f32"): "u32(%s)"}
            if (a["ty"], b["ty"]) in conv:
                a["default"] = conv[(a["ty"], b["ty"])] % b["name"]
    # locations budget (<= 16 attributes over the entry's buffers)
    shared_pool = []
    ents = []
    nvert = r.choice([0, 1, 1, 2, 3])
    compute_only = r.random() < 0.12
    if compute_only:
        nvert = 0
    for vi in range(nvert):
        e = Entry(namer.fresh("vs_"), "vertex")
        nstruct = r.choice([0, 1, 1, 2, 3])
        have_b = set()
        locs = list(range(0, 16))
        r.shuffle(locs)
        for si in range(nstruct):
            if shared_pool and r.random() < 0.35:
                s = r.choice(shared_pool)
                ls = [m["location"] for m in spec.structs[s].members
                      if m.get("location") is not None]
                bs = {m["builtin"] for m in spec.structs[s].members if m.get("builtin")}
                if any(l not in locs for l in ls) or (bs & have_b) or \
                        any(p.get("struct") == s for p in e.params):
                    continue
                have_b |= bs
                for l in ls:
                    locs.remove(l)
            else:
                n = r.randint(1, 4)
                if r.random() < 0.12 and len(have_b) < 2:
                    n = 0  # a struct parameter made of builtins only
                if len(locs) < n:
                    break
                mine = [locs.pop() for _ in range(n)]
                if r.random() < 0.4:
                    mine.sort()
                name = namer.fresh(r.choice(["Vertex", "Instance", "In", "Attr"]))
                name = name[0].upper() + name[1:]
                if shared_pool and r.random() < 0.08:
                    # differs from an existing struct's name in capitalisation only
                    base_ = shared_pool[-1]
                    cand = base_[0] + "".join(ch.swapcase() if k_ == 1 else ch
                                              for k_, ch in enumerate(base_[1:], 1))
                    if cand != base_ and cand not in spec.structs and cand.lower() == base_.lower():
                        name = cand
                ms = []
                if n and r.random() < 0.08:
                    # location numbers far beyond any device limit are still the shader's numbers
                    big = [16, 31, 255, 256, 300, 1000, 65535, 65536, 2 ** 31 - 1]
                    free_big = [b for b in big if b not in getattr(e, "big_locs", set())]
                    for k in range(min(len(mine), 2, len(free_big))):
                        locs.append(mine[k])
                        mine[k] = free_big.pop(r.randrange(len(free_big)))
                        e.big_locs = getattr(e, "big_locs", set()) | {mine[k]}
                for l in mine:
                    m_ = {"name": namer.fresh("a"), "ty": r.choice(vtypes), "location": l}
                    if r.random() < 0.12:
                        # the member's type written through a user alias
                        an = namer.fresh("VAlias")
                        an = an[0].upper() + an[1:]
                        spec.extra_decls.append("alias %s = %s;" % (an, W.wgsl(m_["ty"])))
                        m_["alias"] = an
                    ms.append(m_)
                avail = [(b, t) for (b, t) in [("vertex_index", W.S("u32")),
                                               ("instance_index", W.S("u32"))] if b not in have_b]
                for b, ty in r.sample(avail, min(len(avail), r.choice([0, 0, 1, 2]) if n else
                                                 r.choice([1, 2]))):
                    have_b.add(b)
                    ms.insert(r.randint(0, len(ms)), {"name": namer.fresh("bi"), "ty": ty,
                                                      "builtin": b})
                spec.structs[name] = W.StructDef(name, ms)
                shared_pool.append(name)
                s = name
            e.params.append({"name": "p%d" % len(e.params), "struct": s})
        # builtin parameters unless a struct already carries them
        have = {m.get("builtin") for p in e.params if p.get("struct")
                for m in spec.structs[p["struct"]].members}
        for b in ("vertex_index", "instance_index"):
            if b not in have and r.random() < 0.3:
                e.params.insert(r.randint(0, len(e.params)),
                                {"name": "b_" + b, "builtin": b, "ty": "u32"})
        if r.random() < 0.5:
            e.result = {"kind": "position"}
        else:
            vo = io_struct(r, spec, namer, "VOut", with_position=True)
            e.result = {"kind": "struct", "struct": vo}
        ents.append(e)
    nfrag = 0 if compute_only else r.choice([0, 1, 1, 2, 2, 3])
    for fi in range(nfrag):
        e = Entry(namer.fresh("fs_"), "fragment")
        k = r.random()
        if k < 0.2:
            e.result = None
        elif k < 0.45:
            e.result = {"kind": "location", "location": r.choice([0, 0, 1, 3, 7, 8, 9, 15, 31]),
                        "ty": r.choice(["vec4<f32>", "f32", "vec4<u32>", "vec2<f32>", "i32"])}
        elif k < 0.55:
            e.result = {"kind": "builtin", "builtin": "frag_depth", "ty": "f32"}
        else:
            nl = r.randint(0, 4)
            locs = r.sample(range(0, 8) if r.random() < 0.75 else range(0, 20), nl)
            if r.random() < 0.5:
                locs.sort()
            name = namer.fresh("FOut")
            name = name[0].upper() + name[1:]
            ms = [{"name": namer.fresh("o"), "ty": r.choice([W.V(4, "f32"), W.S("f32"),
                                                             W.V(4, "u32"), W.V(2, "f32"),
                                                             W.V(4, "i32")]), "location": l}
                  for l in locs]
            for b, ty in r.sample([("frag_depth", W.S("f32")), ("sample_mask", W.S("u32"))],
                                  r.choice([0, 0, 1, 2])):
                ms.insert(r.randint(0, len(ms)), {"name": namer.fresh("bo"), "ty": ty,
                                                  "builtin": b})
            if not ms:
                ms = [{"name": "d", "ty": W.S("f32"), "builtin": "frag_depth"}]
            if r.random() < 0.15:
                # dual source blending: two values for ONE colour target (location 0)
                ms = [m for m in ms if m.get("location") is None]
                pair = [{"name": namer.fresh("o"), "ty": W.V(4, "f32"), "location": 0},
                        {"name": namer.fresh("o"), "ty": W.V(4, "f32"), "location": 0,
                         "blend_src": True}]
                for m in pair:
                    ms.insert(r.randint(0, len(ms)), m)
            spec.structs[name] = W.StructDef(name, ms)
            e.result = {"kind": "struct", "struct": name}
        prev = [x for x in ents if x.stage == "fragment" and x.result and
                x.result["kind"] in ("location", "builtin")]
        if prev and r.random() < 0.6:
            # same result TYPE as an earlier fragment entry, another binding written on it
            pr = prev[-1].result
            if pr["kind"] == "location":
                e.result = r.choice([
                    {"kind": "location", "location": pr["location"] + r.choice([1, 2, 4]),
                     "ty": pr["ty"]},
                    {"kind": "builtin", "builtin": "frag_depth", "ty": "f32"}
                    if pr["ty"] == "f32" else
                    {"kind": "location", "location": (pr["location"] + 3) % 7, "ty": pr["ty"]}])
            else:
                e.result = {"kind": "location", "location": r.choice([0, 1, 2]), "ty": "f32"}
        if r.random() < 0.4:
            e.params.append({"name": "pos", "builtin": "position", "ty": "vec4<f32>"})
        ents.append(e)
    ncomp = r.choice([0, 1, 1, 2, 3]) if (nvert + nfrag) else r.choice([1, 2, 3])
    for ci in range(ncomp):
        e = Entry(namer.fresh("cs_"), "compute")
        dims = r.randint(1, 3)
        sizes, expect = [], []
        for d in range(dims):
            v = r.choice([1, 1, 2, 3, 4, 8, 16, 64])
            if r.random() < 0.3:
                cn = namer.fresh("WG_").upper()
                suffix = r.choice(["", "u", "i"])
                spec.consts.append({"name": cn, "decl": "const %s = %d%s;" % (cn, v, suffix),
                                    "ty": {"": "i32", "u": "u32", "i": "i32"}[suffix],
                                    "bits": v, "skipped": False})
                sizes.append(cn)
            else:
                sizes.append(v)
            expect.append(v)
        e.workgroup_size = sizes
        e.workgroup_expected = expect + [1] * (3 - dims)
        if r.random() < 0.4:
            e.params.append({"name": "gid", "builtin": "global_invocation_id",
                             "ty": "vec3<u32>"})
        ents.append(e)
    # a little state so entries can touch something
    spec.globals.append(Global(namer.fresh("g"), "buffer", space="storage", access="read_write",
                               ty=W.A(W.S("f32"), 4), group=0, binding=0))
    u32_ovs = [o for o in spec.overrides if o["ty"] == "u32" and not o.get("decl_ty")]
    if u32_ovs and any(e.stage == "compute" for e in ents) and r.random() < 0.5:
        # an override that is (also) the length of a workgroup array
        ov_ = r.choice(u32_ovs)
        ov_["array_len"] = True
        if ov_.get("default") is not None and not str(ov_["default"])[0].isdigit():
            ov_["default"] = "8u"
        elif ov_.get("default") in ("0u", "4294967295u"):
            ov_["default"] = "9u"
        spec.globals.append(Global(namer.fresh("wg_tile"), "workgroup", ty=W.A(W.S("f32"), 4),
                                   len_override=ov_["name"]))
    for s_ in shared_pool:
        if r.random() < 0.25:
            # an ordinary helper that takes and returns the vertex input struct
            spec.extra_decls.append("fn mirrored_%s(v: %s) -> %s { return v; }" % (s_, s_, s_))
    shareable = [s for s in shared_pool
                 if not W.contains_kind(W.ST(s), spec.structs, ("f64",)) and
                 not any(m.get("builtin") for m in spec.structs[s].members)]
    if shareable and r.random() < 0.3:
        # instance data written by a compute pass: the vertex input struct is also the element
        # type of a storage buffer
        s_ = r.choice(shareable)
        spec.globals.append(Global(namer.fresh("inst"), "buffer", space="storage", access="read",
                                   ty=r.choice([W.A(W.ST(s_), None), W.A(W.ST(s_), 4), W.ST(s_)]),
                                   group=0, binding=1))
    if r.random() < 0.6:
        r.shuffle(ents)  # declaration order of entry points is unrelated to their stage
    spec.entries = ents
    spec.funcs = []
    for e in ents:
        if r.random() < 0.5:
            acc = possible_accesses(spec, spec.globals[0], r)
            globs, form, ex, st = acc[0]
            e.actions.append(Action("access", "top", glob=globs, form=form, expr=ex, stmt=None))
        # make required overrides "used" so that pipeline creation needs them
        for o in spec.overrides:
            if r.random() < 0.7:
                conv = {"bool": "f32(%s)", "i32": "f32(%s)", "u32": "f32(%s)", "f32": "%s"}
                e.actions.append(Action("access", "top", glob=[], form="override",
                                        expr=conv[o["ty"]] % o["name"], stmt=None))
    return spec


F32_BITS = [0x00000000, 0x80000000, 0x3f800000, 0xbf800000, 0x7f7fffff, 0xff7fffff, 0x00800000,
            0x00000001, 0x007fffff, 0x3eaaaaab, 0x40490fdb, 0x33d6bf95, 0x4b800000, 0x4effffff]
# naga 24 cannot negate f64 in constant evaluation: only non-negative f64 values are expressible
F64_BITS = [0x0, 0x3ff0000000000000, 0x7fefffffffffffff, 0x0010000000000000,
            0x0000000000000001, 0x400921fb54442d18, 0x43e0000000000000, 0x3fb999999999999a]


def fam_const(r, idx):
    """module constants and source text: C15 C16"""
    import struct as pystruct
    spec = ShaderSpec()
    spec.families = ["const"]
    namer = Namer(r, nonascii=0.1)

    def f32_lit(bits, suffix=True):
        v = pystruct.unpack("<f", pystruct.pack("<I", bits))[0]
        s = repr(float(v))
        # shortest repr of the f64 image of an f32 round-trips through f32 parsing
        if "e" not in s and "." not in s and "inf" not in s:
            s += ".0"
        return s + ("f" if suffix else "")

    def f64_lit(bits):
        v = pystruct.unpack("<d", pystruct.pack("<Q", bits))[0]
        s = repr(float(v))
        if "e" not in s and "." not in s:
            s += ".0"
        return s + "lf"

    n = r.randint(2, 9)
    prev = []
    aliases = {}
    if r.random() < 0.35:
        for ty in r.sample(["f32", "i32", "u32", "bool", "f64"], r.randint(1, 3)):
            an = namer.fresh("Alias")
            an = an[0].upper() + an[1:]
            aliases[ty] = an
            spec.extra_decls.append("alias %s = %s;" % (an, ty))
    for i in range(n):
        name = namer.fresh("K_").upper() if r.random() < 0.7 else namer.fresh("k_")
        k = r.random()
        c = None
        if k < 0.16:
            v = r.choice([0, 1, -1, 7, 2147483647, -2147483647, -2147483648, 12345])
            form = r.choice(["inferred", "typed", "suffix"])
            lit = str(v) if v != -2147483648 else "-2147483647 - 1"
            if form == "suffix" and v >= 0:
                lit += "i"
            decl = "const %s%s = %s;" % (name, ": i32" if form == "typed" else "", lit)
            c = {"name": name, "decl": decl, "ty": "i32", "bits": v & 0xffffffff}
        elif k < 0.3:
            v = r.choice([0, 1, 34, 4294967295, 2147483648, 65536])
            form = r.choice(["suffix", "typed"])
            decl = "const %s%s = %d%s;" % (name, ": u32" if form == "typed" else "", v,
                                           "u" if form == "suffix" or r.random() < 0.5 else "")
            c = {"name": name, "decl": decl, "ty": "u32", "bits": v}
        elif k < 0.5:
            bits = r.choice(F32_BITS)
            form = r.choice(["inferred", "typed", "suffix"])
            lit = f32_lit(bits, suffix=(form == "suffix"))
            if form != "suffix" and "." not in lit and "e" not in lit:
                lit += ".0"
            decl = "const %s%s = %s;" % (name, ": f32" if form == "typed" else "", lit)
            c = {"name": name, "decl": decl, "ty": "f32", "bits": bits}
        elif k < 0.6:
            bits = r.choice(F64_BITS)
            decl = "const %s%s = %s;" % (name, r.choice(["", ": f64"]), f64_lit(bits))
            c = {"name": name, "decl": decl, "ty": "f64", "bits": bits}
        elif k < 0.67:
            v = r.choice([True, False])
            form = r.choice(["lit", "typed", "expr"])
            decl = {"lit": "const %s = %s;" % (name, str(v).lower()),
                    "typed": "const %s: bool = %s;" % (name, str(v).lower()),
                    "expr": "const %s = %s;" % (name, "1 < 2" if v else "2 < 1")}[form]
            c = {"name": name, "decl": decl, "ty": "bool", "bits": int(v)}
        elif k < 0.73:
            v = r.choice([0, 5, -9, 9223372036854775807, -9223372036854775807])
            decl = "const %s = %dli;" % (name, v) if v >= 0 else \
                "const %s = -%dli;" % (name, -v)
            c = {"name": name, "decl": decl, "ty": "i64", "bits": v & 0xffffffffffffffff}
        elif k < 0.77:
            v = r.choice([0, 5, 18446744073709551615])
            c = {"name": name, "decl": "const %s = %dlu;" % (name, v), "ty": "u64", "bits": v}
        elif k < 0.83:
            # zero value constructors
            ty = r.choice(["f32", "i32", "u32", "bool", "i64", "u64", "f64"])
            c = {"name": name, "decl": "const %s%s = %s();" % (
                name, r.choice(["", ": " + ty]), ty), "ty": ty, "bits": 0}
        elif k < 0.9 and prev:
            # reference / expression over earlier constants
            p = r.choice(prev)
            if p["ty"] == "i32" and abs(to_signed(p["bits"], 32)) < 1000:
                v = to_signed(p["bits"], 32) * 3 + 1
                c = {"name": name, "decl": "const %s = %s * 3 + 1;" % (name, p["name"]),
                     "ty": "i32", "bits": v & 0xffffffff}
            elif p["ty"] == "u32" and p["bits"] < 1000:
                c = {"name": name, "decl": "const %s = %s + 2u;" % (name, p["name"]),
                     "ty": "u32", "bits": p["bits"] + 2}
            elif p["ty"] == "f32":
                # negation and copy are exact
                if r.random() < 0.5:
                    c = {"name": name, "decl": "const %s = -%s;" % (name, p["name"]),
                         "ty": "f32", "bits": p["bits"] ^ 0x80000000}
                else:
                    c = {"name": name, "decl": "const %s = %s;" % (name, p["name"]),
                         "ty": "f32", "bits": p["bits"]}
            else:
                c = {"name": name, "decl": "const %s = %s;" % (name, p["name"]),
                     "ty": p["ty"], "bits": p["bits"]}
        elif k < 0.93 and prev and any(p_["ty"] in ("f32", "u32", "i32") for p_ in prev):
            # a composite constant that mentions an earlier scalar constant as a component /
            # takes a component back out of a composite (both stay exported scalars / skipped
            # composites on their own terms)
            p_ = r.choice([q for q in prev if q["ty"] in ("f32", "u32", "i32")])
            vt = {"f32": ("vec3<f32>", "1.0, 2.0"), "u32": ("vec3<u32>", "1u, 2u"),
                  "i32": ("vec3<i32>", "1, 2")}[p_["ty"]]
            form = r.choice(["compose", "splat", "array"])
            decl = {"compose": "const %s = %s(%s, %s);" % (name, vt[0], p_["name"], vt[1]),
                    "splat": "const %s = %s(%s);" % (name, vt[0], p_["name"]),
                    "array": "const %s = array<%s, 2>(%s, %s);" % (
                        name, p_["ty"], p_["name"], p_["name"])}[form]
            c = {"name": name, "decl": decl, "ty": "vector", "bits": None, "skipped": True}
        else:
            # non-scalar constants must be skipped
            decl = r.choice(["const %s = vec3<f32>(1.0, 2.0, 3.0);", "const %s = vec2<u32>();",
                             "const %s = vec4<f32>();", "const %s = mat2x2<f32>();",
                             "const %s = array<f32, 2>(1.0, 2.0);",
                             "const %s: vec2<i32> = vec2<i32>(1, 2);",
                             "const %s = vec3<bool>();",
                             "const %s = vec4<f32>(vec2<f32>(1.0, 2.0), 3.0, 4.0);",
                             "const %s = vec3<f32>(vec2<f32>(0.5, 0.25), 1.0);",
                             "const %s = vec4<u32>(vec3<u32>(1u, 2u, 3u), 4u);",
                             "const %s = vec4<f32>(vec2<f32>(1.0), vec2<f32>(2.0));",
                             "const %s = vec3<f32>(1.0);",
                             "const %s = mat2x2<f32>(vec2<f32>(1.0, 0.0), vec2<f32>(0.0, 1.0));",
                             "const %s = array<vec2<f32>, 2>(vec2<f32>(1.0), vec2<f32>(2.0));",
                             "const %s = vec2<f32>(1.0, 2.0).yx;",
                             "const %s = array<f32, 1>(3.0);",
                             "const %s = array<u32, 1>(7u);",
                             "const %s = array<array<f32, 1>, 1>(array<f32, 1>(5.0));",
                             "const %s = array<vec2<f32>, 1>(vec2<f32>(1.0, 2.0));"]) % name
            c = {"name": name, "decl": decl, "ty": "vector", "bits": None, "skipped": True}
        c.setdefault("skipped", False)
        if not c["skipped"] and c["ty"] in aliases and r.random() < 0.7:
            # the same constant declared through a type alias (explicit type or constructor)
            an = aliases[c["ty"]]
            d = c["decl"]
            if "= %s();" % c["ty"] in d:
                d = d.replace("= %s();" % c["ty"], "= %s();" % an)
                d = d.replace(": %s =" % c["ty"], ": %s =" % r.choice([an, c["ty"]]))
            elif ": %s =" % c["ty"] in d:
                d = d.replace(": %s =" % c["ty"], ": %s =" % an)
            elif c["ty"] in ("f32", "i32", "u32", "bool", "f64") and " = " in d and \
                    not d.rstrip(";").endswith(("i", "u", "f", "lf")) :
                d = d.replace(" = ", ": %s = " % an, 1)
            c["decl"] = d
        spec.consts.append(c)
        if not c["skipped"]:
            prev.append(c)
    # exact product that yields negative zero
    if r.random() < 0.3:
        name = namer.fresh("NZ_").upper()
        spec.consts.append({"name": name, "decl": "const %s = 0.0 * -1.0;" % name, "ty": "f32",
                            "bits": 0x80000000, "skipped": False})
    # hostile text
    hostile = ['// "quotes" \'single\' \\backslash\\ {braces} }} {{ r#"raw"# \\n \\u{41} \\x41',
               "// NUL \x00 inside a line comment", "/* NUL \x00 in a block comment */",
               "// tab\there, nul-less control \x01\x02\x7f, BOM-like ﻿ inside, zero width ​",
               "/* block */ // 变量 😀 \U0001F600 é é ‮ rtl",
               "// line ending variants follow",
               "/* nested /* comment */ still */",
               "// $ ` ~ ! @ # % ^ & * ( ) - + = [ ] | : ; < > , . ? /",
               "// trailing backslash \\",
               "// \"#  \"##  #\" r\"x\" b'\\''"]
    spec.header = r.sample(hostile, r.randint(0, 4))
    if idx % 11 == 5:
        # embedded sources above 64 KiB with multi-byte characters at every offset class
        spec.header.append("//" + "a" * (idx % 4) + "é" * 40000)
        spec.header.append("/* " + "😀变" * 9000 + " */")
    spec.line_ending = r.choice(["\n", "\n", "\r\n", "\n"])
    spec.consts_one_line = r.random() < 0.2
    spec.no_final_newline = r.random() < 0.25
    spec.final_comment = r.random() < 0.4
    spec.entries = [Entry(r.choice(["light_source", "source", "cs_source", "resource"])
                          if r.random() < 0.1 else namer.fresh("cs_"), "compute")]
    spec.entries[0].workgroup_size = [1]
    spec.entries[0].workgroup_expected = [1, 1, 1]
    return spec


def to_signed(v, bits):
    return v - (1 << bits) if v >= (1 << (bits - 1)) else v


# ---------------------------------------------------------------------------------------------
# directed cases: always part of the struct campaign (leaf table, known-finding witnesses,
# shapes the random families reach only now and then)


def _compute_entry(spec, name="cs_main"):
    e = Entry(name, "compute")
    e.workgroup_size = [1]
    e.workgroup_expected = [1, 1, 1]
    spec.entries.append(e)
    return e


def _storage(spec, name, ty, binding, access="read_write", space="storage"):
    g = Global(name, "buffer", space=space, access=access if space == "storage" else "read",
               ty=ty, group=0, binding=binding)
    spec.globals.append(g)
    return g


def directed_struct_specs():
    out = []

    def new(tag):
        s = ShaderSpec()
        s.families = ["struct", "directed", tag]
        out.append(s)
        return s

    def st(spec, name, members):
        spec.structs[name] = W.StructDef(name, [dict({"name": n, "ty": t}, **(kw or {}))
                                                for (n, t, kw) in members])
        return W.ST(name)

    # explicit @align / @size
    s = new("align")
    _storage(s, "buf", st(s, "AlignTrap", [("a", W.S("f32"), None), ("b", W.S("f32"), {"align": 8}),
                                           ("c", W.V(4, "f32"), None)]), 0)
    _compute_entry(s)
    s = new("size")
    _storage(s, "buf", st(s, "SizeTrap", [("a", W.V(2, "f32"), None), ("b", W.V(2, "u32"), None),
                                          ("c", W.V(2, "f32"), None),
                                          ("d", W.V(4, "f32"), {"size": 20}),
                                          ("e", W.S("u32"), None)]), 0)
    _compute_entry(s)
    # stage output struct that is also host-shareable (builtin members)
    s = new("builtin-host")
    vo = st(s, "VOutHost", [("pos", W.V(4, "f32"), {"builtin": "position"}),
                            ("color", W.V(4, "f32"), {"location": 0}),
                            ("w", W.S("f32"), {"location": 3})])
    _storage(s, "saved", W.A(vo, 2), 0)
    e = Entry("vs_main", "vertex")
    e.result = {"kind": "struct", "struct": "VOutHost"}
    s.entries.append(e)
    s = new("builtin-host-frag")
    fo = st(s, "FOutHost", [("a", W.V(4, "f32"), {"location": 0}),
                            ("c", W.V(4, "f32"), {"location": 2}),
                            ("d", W.S("f32"), {"builtin": "frag_depth"}),
                            ("t", W.V(2, "f32"), {"location": 1})])
    _storage(s, "saved", W.A(fo, None), 0)
    e = Entry("fs_main", "fragment")
    e.result = {"kind": "struct", "struct": "FOutHost"}
    s.entries.append(e)
    # reachability through three levels and arrays of arrays
    s = new("deep")
    st(s, "L0", [("v", W.V(4, "f32"), None)])
    st(s, "L1", [("x", W.A(W.ST("L0"), 2), None), ("k", W.V(4, "u32"), None)])
    st(s, "L2", [("y", W.A(W.A(W.ST("L1"), 2), 2), None)])
    st(s, "L3", [("z", W.ST("L2"), None), ("n", W.V(4, "i32"), None)])
    _storage(s, "root", W.ST("L3"), 0)
    _compute_entry(s)
    # nesting depths close to WGSL's limit: 9 array levels / a 10-level struct chain above a
    # struct that is also a vertex input
    s = new("deep-arrays")
    st(s, "DeepElem", [("p", W.V(3, "f32"), {"location": 0}), ("v", W.V(3, "f32"), {"location": 1}),
                       ("c", W.V(3, "f32"), {"location": 2})])
    t = W.ST("DeepElem")
    for _ in range(9):
        t = W.A(t, 2)
    _storage(s, "deep", t, 0)
    e = Entry("vs_deep", "vertex")
    e.params = [{"name": "v", "struct": "DeepElem"}]
    e.result = {"kind": "position"}
    s.entries.append(e)
    s = new("deep-structs")
    st(s, "Bottom", [("p", W.V(3, "f32"), {"location": 0}), ("q", W.S("f32"), {"location": 1}),
                     ("r", W.V(3, "f32"), {"location": 2})])
    prev = "Bottom"
    for k in range(10):
        st(s, "Lvl%d" % k, [("n", W.V(4, "u32"), None), ("inner", W.A(W.ST(prev), 1) if k % 2
                                                         else W.ST(prev), None)])
        prev = "Lvl%d" % k
    _storage(s, "root", W.ST(prev), 0)
    e = Entry("vs_deep", "vertex")
    e.params = [{"name": "v", "struct": "Bottom"}]
    e.result = {"kind": "position"}
    s.entries.append(e)
    # a nested struct that is NOT the last member, followed by members whose types were seen
    # before (twice the same type; a type known from an earlier variable); the nested struct
    # is also a vertex input, so it is emitted whatever the reachability walk does
    s = new("nested-first")
    st(s, "Particle", [("pos", W.V(3, "f32"), {"location": 0}), ("vel", W.V(3, "f32"), {"location": 1}),
                       ("life", W.S("f32"), {"location": 2})])
    st(s, "Emitter", [("origin", W.V(4, "f32"), None)])
    st(s, "Pool", [("first", W.ST("Particle"), None), ("count", W.S("u32"), None),
                   ("cap", W.S("u32"), None)])
    st(s, "Batch", [("emitter", W.ST("Emitter"), None), ("items", W.A(W.ST("Particle"), 2), None),
                    ("scale", W.S("f32"), None), ("bias", W.S("f32"), None)])
    _storage(s, "frame", W.S("u32"), 0, space="uniform")
    _storage(s, "pool", W.ST("Pool"), 1)
    _storage(s, "batch", W.ST("Batch"), 2)
    e = Entry("vs_particles", "vertex")
    e.params = [{"name": "p", "struct": "Particle"}]
    e.result = {"kind": "position"}
    s.entries.append(e)
    # a struct reachable only as the element of a binding array of buffers (no @group/@binding:
    # the tool refuses bound binding arrays, and the validator wants a binding, so this case
    # counts on the front end's verdict alone)
    s = new("binding-array")
    s.parse_only = True
    st(s, "BaInner", [("w", W.V(4, "f32"), None)])
    st(s, "BaElem", [("v", W.V(4, "f32"), None), ("inner", W.ST("BaInner"), None)])
    s.globals.append(Global("ba", "private", ty=W.A(W.ST("BaElem"), 2),
                            decl_text="var<storage> ba: binding_array<BaElem, 2>;"))
    _compute_entry(s)
    # members named like padding; an entry input with a builtin member that is also buffer data
    s = new("underscore-members")
    st(s, "Padded", [("scale", W.S("f32"), None), ("_reserved", W.S("f32"), None),
                     ("bias", W.S("f32"), None), ("_extra", W.V(2, "u32"), None),
                     ("m", W.M(4, 4), None), ("_tail", W.S("u32"), None)])
    _storage(s, "padded", W.ST("Padded"), 0)
    _compute_entry(s)
    s = new("input-builtin-host")
    st(s, "Inst", [("offset", W.V(4, "f32"), {"location": 0}),
                   ("vi", W.S("u32"), {"builtin": "vertex_index"}),
                   ("tint", W.V(4, "f32"), {"location": 1})])
    _storage(s, "instances", W.A(W.ST("Inst"), 4), 0, access="read")
    e = Entry("vs_inst", "vertex")
    e.params = [{"name": "i", "struct": "Inst"}]
    e.result = {"kind": "position"}
    s.entries.append(e)
    # bool members (only possible behind private / workgroup variables)
    s = new("bool-private")
    st(s, "Flags", [("enabled", W.S("bool"), None), ("count", W.S("u32"), None),
                    ("dirty", W.S("bool"), None)])
    st(s, "Masks", [("lanes", W.V(4, "bool"), None), ("pair", W.V(2, "bool"), None),
                    ("list", W.A(W.S("bool"), 3), None), ("inner", W.ST("Flags"), None)])
    s.globals.append(Global("flags", "private", ty=W.ST("Flags")))
    s.globals.append(Global("masks", "workgroup", ty=W.ST("Masks")))
    _compute_entry(s)
    # vec3 packing
    s = new("vec3")
    st(s, "Vec3ThenScalar", [("a", W.V(3, "f32"), None), ("b", W.S("f32"), None),
                             ("c", W.V(3, "u32"), None), ("d", W.S("i32"), None)])
    st(s, "ScalarThenVec3", [("a", W.S("f32"), None), ("b", W.V(3, "f32"), None),
                             ("c", W.A(W.V(3, "f32"), 2), None), ("m", W.M(3, 3), None)])
    _storage(s, "p", W.ST("Vec3ThenScalar"), 0)
    _storage(s, "q", W.ST("ScalarThenVec3"), 1)
    _compute_entry(s)
    # runtime arrays
    s = new("rts")
    st(s, "Elem", [("p", W.V(3, "f32"), None), ("r", W.S("f32"), None)])
    st(s, "RtVec3", [("count", W.S("u32"), None), ("items", W.A(W.V(3, "f32"), None), None)])
    st(s, "RtStruct", [("count", W.V(4, "u32"), None), ("items", W.A(W.ST("Elem"), None), None)])
    st(s, "RtMat", [("items", W.A(W.M(3, 3), None), None)])
    st(s, "AfterRt", [("a", W.V(4, "f32"), None), ("b", W.S("u32"), None)])
    _storage(s, "after", W.ST("AfterRt"), 4)
    st(s, "RtFixed", [("bounds", W.A(W.V(4, "f32"), 2), None),
                      ("grid", W.A(W.A(W.S("f32"), 2), 3), None),
                      ("cells", W.A(W.ST("Elem"), 2), None),
                      ("items", W.A(W.V(4, "f32"), None), None)])
    _storage(s, "d", W.ST("RtFixed"), 3)
    _storage(s, "a", W.ST("RtVec3"), 0)
    _storage(s, "b", W.ST("RtStruct"), 1)
    _storage(s, "c", W.ST("RtMat"), 2)
    _compute_entry(s)
    # leaf table: matrices
    for kind in ("f32", "f64"):
        s = new("matrices-" + kind)
        st(s, "Mats", [("m%d%d" % (c, r), W.M(c, r, kind), None) for c in (2, 3, 4)
                       for r in (2, 3, 4)])
        _storage(s, "m", W.ST("Mats"), 0)
        _compute_entry(s)
    # leaf table: scalars and vectors
    # arrays beyond serde's 32-element impls, under every derive switch set
    s = new("big-arrays")
    s.matrix = True
    s.force_opts = {"se": True}
    st(s, "BigInner", [("c", W.A(W.S("u32"), 64), None)])
    st(s, "BigArr", [("a", W.A(W.S("f32"), 33), None), ("b", W.A(W.V(4, "f32"), 40), None),
                     ("inner", W.ST("BigInner"), None), ("n", W.A(W.A(W.S("f32"), 36), 2), None)])
    _storage(s, "big", W.ST("BigArr"), 0)
    _compute_entry(s)
    for kind in ("f32", "i32", "u32", "f64", "i64", "u64"):
        s = new("vectors-" + kind)
        st(s, "Vecs", [("s", W.S(kind), None)] + [("v%d" % n, W.V(n, kind), None)
                                                  for n in (2, 3, 4)] +
           [("arr", W.A(W.V(2, kind), 3), None), ("nest", W.A(W.A(W.S(kind), 2), 3), None)])
        _storage(s, "v", W.ST("Vecs"), 0)
        _compute_entry(s)
    # atomics
    s = new("atomics")
    st(s, "Counters", [("a", W.AT("u32"), None), ("b", W.AT("i32"), None),
                       ("hist", W.A(W.AT("u32"), 4), None), ("pad", W.S("u32"), None),
                       ("fa", W.AT("f32"), None), ("fh", W.A(W.AT("f32"), 2), None)])
    _storage(s, "c", W.ST("Counters"), 0)
    _compute_entry(s)
    # uniform, well-formed (encase UniformBuffer path)
    s = new("uniform")
    st(s, "Camera", [("view", W.M(4, 4), None), ("pos", W.V(3, "f32"), None),
                     ("fov", W.S("f32"), None), ("jitter", W.M(3, 3), None),
                     ("ids", W.V(4, "u32"), None), ("lights", W.A(W.V(4, "f32"), 3), None)])
    _storage(s, "camera", W.ST("Camera"), 0, space="uniform")
    _compute_entry(s)
    return out


# ---------------------------------------------------------------------------------------------
# hostile identifiers (C01, opt-in): each case isolates one naming hazard so that signatures
# stay stable.  All of them are valid WGSL for naga 24.


def hostile_specs():
    out = []

    def base(tag):
        s = ShaderSpec()
        s.families = ["hostile", tag]
        out.append(s)
        return s

    for kw in ("in", "dyn", "box"):
        s = base("rust-keyword-member:" + kw)
        s.structs["KwMember"] = W.StructDef("KwMember", [{"name": kw, "ty": W.V(4, "f32")}])
        _storage(s, "buf", W.ST("KwMember"), 0)
        _compute_entry(s)
        s = base("rust-keyword-variable:" + kw)
        _storage(s, kw, W.V(4, "f32"), 0)
        _compute_entry(s)
        s = base("rust-keyword-entry:" + kw)
        _compute_entry(s, kw)
    for name in ("VertexEntry", "FragmentEntry", "OverrideConstants"):
        s = base("struct-named-like-helper:" + name)
        s.structs[name] = W.StructDef(name, [{"name": "a", "ty": W.V(4, "f32"), "location": 0}])
        e = Entry("vs_main", "vertex")
        e.params = [{"name": "v", "struct": name}]
        e.result = {"kind": "position"}
        s.entries.append(e)
        f = Entry("fs_main", "fragment")
        f.result = {"kind": "location", "location": 0, "ty": "vec4<f32>"}
        s.entries.append(f)
        s.overrides.append({"name": "ov", "ty": "f32", "id": None, "default": "1.0"})
    s = base("entry-names-differ-by-case")
    _compute_entry(s, "main")
    _compute_entry(s, "Main")
    s = base("struct-names-equal-in-snake-case")
    s.structs["VertexIn"] = W.StructDef("VertexIn", [{"name": "a", "ty": W.V(4, "f32"),
                                                      "location": 0}])
    s.structs["vertex_in"] = W.StructDef("vertex_in", [{"name": "b", "ty": W.V(4, "f32"),
                                                       "location": 1}])
    e = Entry("vs_main", "vertex")
    e.params = [{"name": "x", "struct": "VertexIn"}, {"name": "y", "struct": "vertex_in"}]
    e.result = {"kind": "position"}
    s.entries.append(e)
    for name in ("SOURCE", "bind_groups", "compute", "Vec", "Option", "String", "wgpu", "std",
                 "Self_", "set_bind_groups", "create_shader_module"):
        s = base("global-named:" + name)
        _storage(s, name, W.V(4, "f32"), 0)
        _compute_entry(s)
    for name in ("Vec", "Option", "String", "Default", "Some", "BindGroup0", "ENTRY_MAIN"):
        s = base("struct-named:" + name)
        s.structs[name] = W.StructDef(name, [{"name": "a", "ty": W.V(4, "f32")}])
        _storage(s, "buf", W.ST(name), 0)
        _compute_entry(s)
    # module constants named like an item the generator adds itself
    for name, extra in (("SOURCE", None), ("ENTRY_CS_MAIN", None), ("PUSH_CONSTANT_STAGES", "pc")):
        s = base("const-named-like-generated:" + name)
        s.consts.append({"name": name, "decl": "const %s = 7u;" % name, "ty": "u32", "bits": 7,
                         "skipped": False})
        if extra:
            s.globals.append(Global("pc", "push", ty=W.V(4, "f32")))
        _compute_entry(s)
    s = base("serde-array-over-32")
    s.structs["Big"] = W.StructDef("Big", [{"name": "a", "ty": W.A(W.V(4, "f32"), 33)}])
    _storage(s, "buf", W.ST("Big"), 0)
    _compute_entry(s)
    s = base("bool-in-private-struct")
    s.structs["Flags"] = W.StructDef("Flags", [{"name": "on", "ty": W.S("bool")},
                                               {"name": "n", "ty": W.S("u32")}])
    s.globals.append(Global("state", "private", ty=W.ST("Flags")))
    _compute_entry(s)
    s = base("f64-member")
    s.structs["Dbl"] = W.StructDef("Dbl", [{"name": "x", "ty": W.S("f64")},
                                           {"name": "v", "ty": W.V(2, "f64")}])
    _storage(s, "buf", W.ST("Dbl"), 0)
    _compute_entry(s)
    return out
