@vertex
fn vs() -> @builtin(position) vec4<f32> { return vec4<f32>(0.0, 0.0, 0.0, 1.0); }
@fragment
fn fs() -> @location(0) vec4<f32> { return vec4<f32>(1.0); }
