// A render shader with several bind groups, helper functions and shared structs.
struct Camera {
    view_proj: mat4x4<f32>,
    position: vec4<f32>,
    near_far: vec2<f32>,
    frame: u32,
};
struct Light {
    position: vec3<f32>,
    radius: f32,
    color: vec3<f32>,
    kind: u32,
};
struct Lights {
    count: u32,
    items: array<Light>,
};
struct Material {
    base_color: vec4<f32>,
    emissive: vec3<f32>,
    roughness: f32,
    flags: array<vec4<u32>, 2>,
};
struct VertexInput {
    @location(0) position: vec3<f32>,
    @location(1) normal: vec3<f32>,
    @location(2) uv: vec2<f32>,
    @builtin(vertex_index) index: u32,
};
struct InstanceInput {
    @location(5) model_0: vec4<f32>,
    @location(6) model_1: vec4<f32>,
    @location(7) model_2: vec4<f32>,
    @location(8) model_3: vec4<f32>,
    @location(9) tint: vec4<u32>,
};
struct VertexOutput {
    @builtin(position) clip: vec4<f32>,
    @location(0) world: vec3<f32>,
    @location(1) normal: vec3<f32>,
    @location(2) uv: vec2<f32>,
    @location(3) @interpolate(flat) tint: vec4<u32>,
};
struct FragmentOutput {
    @location(0) color: vec4<f32>,
    @location(1) normal: vec4<f32>,
    @builtin(frag_depth) depth: f32,
};
const PI: f32 = 3.14159265;
const MAX_LIGHTS = 16u;
const BIAS = -0.005;
override gamma: f32 = 2.2;
override use_fog: bool = false;
@id(7) override shadow_samples: u32;

@group(0) @binding(0) var<uniform> camera: Camera;
@group(0) @binding(1) var<storage, read> lights: Lights;
@group(1) @binding(0) var<uniform> material: Material;
@group(1) @binding(1) var base_color_texture: texture_2d<f32>;
@group(1) @binding(2) var base_color_sampler: sampler;
@group(1) @binding(4) var shadow_map: texture_depth_2d_array;
@group(1) @binding(5) var shadow_sampler: sampler_comparison;
@group(1) @binding(7) var env_map: texture_cube<f32>;
@group(2) @binding(0) var<storage, read_write> counters: array<atomic<u32>, 4>;
var<push_constant> pc: vec4<f32>;

fn attenuation(d: f32, r: f32) -> f32 {
    let x = clamp(1.0 - pow(d / r, 4.0), 0.0, 1.0);
    return x * x / (d * d + 1.0);
}

fn shade(world: vec3<f32>, n: vec3<f32>) -> vec3<f32> {
    var acc = material.emissive;
    let count = min(lights.count, MAX_LIGHTS);
    for (var i = 0u; i < count; i = i + 1u) {
        let l = lights.items[i];
        let d = distance(l.position, world);
        if (d > l.radius) { continue; }
        acc = acc + l.color * attenuation(d, l.radius) * max(dot(n, normalize(l.position - world)), 0.0);
    }
    return acc;
}

fn shadow(world: vec3<f32>) -> f32 {
    var s = 0.0;
    for (var i = 0u; i < shadow_samples; i++) {
        s += textureSampleCompareLevel(shadow_map, shadow_sampler, world.xy, i32(i), world.z + BIAS);
    }
    return s / f32(max(shadow_samples, 1u));
}

@vertex
fn vs_main(v: VertexInput, inst: InstanceInput) -> VertexOutput {
    let model = mat4x4<f32>(inst.model_0, inst.model_1, inst.model_2, inst.model_3);
    var out: VertexOutput;
    let world = model * vec4<f32>(v.position, 1.0);
    out.clip = camera.view_proj * world;
    out.world = world.xyz;
    out.normal = (model * vec4<f32>(v.normal, 0.0)).xyz;
    out.uv = v.uv;
    out.tint = inst.tint;
    return out;
}

@fragment
fn fs_main(in_: VertexOutput) -> FragmentOutput {
    var out: FragmentOutput;
    let base = textureSample(base_color_texture, base_color_sampler, in_.uv) * material.base_color;
    var color = base.rgb * shade(in_.world, normalize(in_.normal)) * shadow(in_.world);
    color = color + textureSample(env_map, base_color_sampler, in_.normal).rgb * material.roughness;
    if (use_fog) {
        color = mix(color, pc.rgb, pc.a);
    }
    atomicAdd(&counters[0], 1u);
    out.color = vec4<f32>(pow(color, vec3<f32>(1.0 / gamma)), base.a);
    out.normal = vec4<f32>(in_.normal, 1.0);
    out.depth = in_.clip.z;
    return out;
}
