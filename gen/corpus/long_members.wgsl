// many descriptively named members: one long assertion message per member with the bytemuck
// host-shareable switch on
struct SceneLightingParameters {
    directional_light_direction_and_intensity: vec4<f32>,
    directional_light_color_and_shadow_bias: vec4<f32>,
    ambient_occlusion_radius_and_falloff_exponent: vec4<f32>,
    volumetric_fog_density_height_and_anisotropy: vec4<f32>,
    screen_space_reflection_steps_and_thickness: vec4<f32>,
    temporal_antialiasing_jitter_and_feedback: vec4<f32>,
    cascaded_shadow_map_split_distances_near: vec4<f32>,
    cascaded_shadow_map_split_distances_far_: vec4<f32>,
    environment_map_rotation_and_mip_level_count: vec4<f32>,
    subsurface_scattering_radius_and_tint_color: vec4<f32>,
    exposure_compensation_and_white_point_value: vec4<f32>,
    bloom_threshold_knee_and_scatter_parameters: vec4<f32>,
    depth_of_field_focus_distance_and_aperture: vec4<f32>,
    chromatic_aberration_and_vignette_strength: vec4<f32>,
}
@group(0) @binding(0) var<uniform> scene_lighting_parameters: SceneLightingParameters;
@fragment
fn fs_main() -> @location(0) vec4<f32> {
    return scene_lighting_parameters.directional_light_color_and_shadow_bias;
}
