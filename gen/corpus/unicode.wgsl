// Ünïcödé in comments: "quotes" 'single' \backslash {braces} 变量 😀 \u{1F600} r#"raw"#
/* block comment with */ // nested-looking */ text
struct Données { größe: vec4<f32>, Δt: f32, 名前: u32 }
@group(0) @binding(0) var<uniform> données: Données;
const π = 3.14159;
@compute @workgroup_size(1)
fn główna() { _ = données.Δt * π; }
