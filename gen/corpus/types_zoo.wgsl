struct Inner { a: vec3<f32>, b: f32, c: vec2<i32>, d: array<vec3<u32>, 3> }
struct Mats { m22: mat2x2<f32>, m23: mat2x3<f32>, m24: mat2x4<f32>, m32: mat3x2<f32>, m33: mat3x3<f32>, m34: mat3x4<f32>, m42: mat4x2<f32>, m43: mat4x3<f32>, m44: mat4x4<f32> }
struct Outer { inner: Inner, list: array<Inner, 2>, mats: Mats, @align(32) tail: vec2<u32>, grid: array<array<f32, 4>, 3> }
struct Doubles { x: f64, v: vec3<f64>, m: mat2x2<f64> }
struct Rts { n: u32, data: array<Inner> }
@group(0) @binding(0) var<storage, read_write> outer: Outer;
@group(0) @binding(1) var<storage> doubles: Doubles;
@group(0) @binding(2) var<storage, read_write> rts: Rts;
@group(0) @binding(3) var<uniform> scalar_u: f32;
@group(0) @binding(4) var<uniform> vec_u: vec3<i32>;
@group(0) @binding(5) var<uniform> mat_u: mat4x4<f32>;
@group(0) @binding(6) var<storage> arr_s: array<vec4<f32>, 7>;
@group(0) @binding(7) var<storage> rt_s: array<u32>;
@group(1) @binding(0) var t1: texture_1d<f32>;
@group(1) @binding(1) var t2a: texture_2d_array<i32>;
@group(1) @binding(2) var tca: texture_cube_array<f32>;
@group(1) @binding(3) var tms: texture_multisampled_2d<u32>;
@group(1) @binding(4) var tdms: texture_depth_multisampled_2d;
@group(1) @binding(5) var tdc: texture_depth_cube;
@group(1) @binding(6) var ts3: texture_storage_3d<rgba32uint, write>;
@group(1) @binding(7) var ts1: texture_storage_1d<r32sint, read_write>;
@group(1) @binding(8) var tsa: texture_storage_2d_array<rgba8snorm, read>;
@compute @workgroup_size(2, 3, 4)
fn main() {
    outer.tail = vec2<u32>(arrayLength(&rts.data), rt_s[0]);
    outer.inner.b = scalar_u + f32(vec_u.x) + mat_u[0][0] + arr_s[1].x + f32(doubles.x);
    _ = textureDimensions(t1); _ = textureDimensions(t2a); _ = textureDimensions(tca);
    _ = textureDimensions(tms); _ = textureDimensions(tdms); _ = textureDimensions(tdc);
    textureStore(ts3, vec3<i32>(0), vec4<u32>(1u));
    textureStore(ts1, 0, textureLoad(ts1, 0));
    _ = textureLoad(tsa, vec2<i32>(0), 0);
}
