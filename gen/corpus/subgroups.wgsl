// subgroup operations in every stage (capability SUBGROUP, SUBGROUP_VERTEX_STAGE), push
// constants, f64, and other capability-gated features
struct Out { @builtin(position) pos: vec4<f32>, @location(0) @interpolate(flat) s: u32 }
@group(0) @binding(0) var<storage, read_write> acc: array<u32, 4>;
var<push_constant> pc: vec4<f32>;
fn reduce(x: u32) -> u32 { return subgroupAdd(x) + subgroupMax(x); }
@vertex
fn vs_main(@builtin(vertex_index) i: u32) -> Out {
    var o: Out;
    o.pos = pc;
    o.s = reduce(i);
    return o;
}
@fragment
fn fs_main(in_: Out) -> @location(0) vec4<f32> {
    let b = subgroupBroadcastFirst(in_.s);
    return vec4<f32>(f32(b));
}
@compute @workgroup_size(64)
fn cs_main(@builtin(subgroup_invocation_id) sid: u32, @builtin(subgroup_size) ssz: u32) {
    acc[0] = reduce(sid) + ssz;
    if (subgroupAny(sid == 0u)) { acc[1] = subgroupBallot(true).x; }
    let d = f64(acc[2]) * 2.0lf;
    acc[3] = u32(d);
}
