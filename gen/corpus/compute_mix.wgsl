struct Params {
    dims: vec3<u32>,
    dt: f32,
    gravity: vec3<f32>,
    @size(16) damping: f32,
    jitter: mat3x3<f32>,
};
struct Particle {
    pos: vec3<f32>,
    life: f32,
    vel: vec3<f32>,
    seed: u32,
};
struct Stats {
    alive: atomic<u32>,
    dead: atomic<i32>,
    hist: array<atomic<u32>, 8>,
};
struct Scratch { tmp: array<vec4<f32>, 64>, flag: bool };

const WG: u32 = 64u;
const HALF = 0.5;
const TWO = 1 + 1;
override scale: f32 = 1.0;
override steps: i32 = 4;

@group(0) @binding(0) var<uniform> params: Params;
@group(0) @binding(1) var<storage, read> src: array<Particle>;
@group(0) @binding(2) var<storage, read_write> dst: array<Particle>;
@group(0) @binding(3) var<storage, read_write> stats: Stats;
@group(1) @binding(0) var field: texture_3d<f32>;
@group(1) @binding(1) var field_sampler: sampler;
@group(1) @binding(2) var out_image: texture_storage_2d<rgba16float, write>;
@group(1) @binding(3) var in_image: texture_storage_2d<r32float, read>;
@group(1) @binding(9) var counts: texture_storage_2d<r32uint, read_write>;
var<workgroup> shared_scratch: Scratch;
var<private> rng_state: u32;

fn rand() -> f32 {
    rng_state = rng_state * 747796405u + 2891336453u;
    let w = ((rng_state >> ((rng_state >> 28u) + 4u)) ^ rng_state) * 277803737u;
    return f32((w >> 22u) ^ w) / 4294967295.0;
}

fn sample_field(p: vec3<f32>) -> vec3<f32> {
    return textureSampleLevel(field, field_sampler, p / vec3<f32>(params.dims), 0.0).xyz;
}

fn integrate(p: Particle) -> Particle {
    var q = p;
    var k = 0;
    loop {
        if (k >= steps) { break; }
        q.vel = (q.vel + (params.gravity + sample_field(q.pos)) * params.dt) * params.damping;
        q.pos = q.pos + params.jitter * q.vel * params.dt * scale;
        continuing {
            k = k + 1;
        }
    }
    q.life = q.life - params.dt;
    return q;
}

fn record(alive: bool) {
    if (alive) {
        atomicAdd(&stats.alive, 1u);
    } else {
        atomicSub(&stats.dead, -1);
    }
}

@compute @workgroup_size(WG, 1, 1)
fn simulate(@builtin(global_invocation_id) gid: vec3<u32>, @builtin(local_invocation_index) lid: u32) {
    let n = arrayLength(&src);
    if (gid.x >= n) { return; }
    rng_state = src[gid.x].seed + gid.x;
    var p = integrate(src[gid.x]);
    shared_scratch.tmp[lid] = vec4<f32>(p.pos, rand());
    workgroupBarrier();
    switch (p.seed % 3u) {
        case 0u: { record(p.life > 0.0); }
        case 1u, 2u: { atomicMax(&stats.hist[p.seed % 8u], u32(p.life * HALF)); }
        default: { }
    }
    dst[gid.x] = p;
}

@compute @workgroup_size(8, 8)
fn blit(@builtin(global_invocation_id) gid: vec3<u32>) {
    let c = vec2<i32>(gid.xy);
    let v = textureLoad(in_image, c).r;
    let k = textureLoad(counts, c).r;
    textureStore(counts, c, vec4<u32>(k + u32(TWO)));
    textureStore(out_image, c, vec4<f32>(v, v, v, 1.0));
}
