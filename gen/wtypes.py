"""WGSL type model, independent WGSL layout calculator (spec section 13.4), expected Rust type
expressions per representation, vertex formats, probe value construction.

Types are tuples:
  ("s", kind)                kind in f32 i32 u32 f64 bool
  ("v", n, kind)             vecN<kind>
  ("m", cols, rows, kind)    matCxR<kind>   (kind f32|f64)
  ("at", kind)               atomic<kind>   (i32|u32)
  ("a", elem, n)             array<elem, n>;  n None => runtime sized
  ("st", name)               struct reference
"""

SCALAR_SIZE = {"f32": 4, "i32": 4, "u32": 4, "f64": 8, "bool": 4, "i64": 8, "u64": 8}


def S(kind):
    return ("s", kind)


def V(n, kind):
    return ("v", n, kind)


def M(c, r, kind="f32"):
    return ("m", c, r, kind)


def AT(kind):
    return ("at", kind)


def A(elem, n):
    return ("a", elem, n)


def ST(name):
    return ("st", name)


def round_up(a, x):
    return (x + a - 1) // a * a


def wgsl(t):
    k = t[0]
    if k == "s":
        return t[1]
    if k == "v":
        return "vec%d<%s>" % (t[1], t[2])
    if k == "m":
        return "mat%dx%d<%s>" % (t[1], t[2], t[3])
    if k == "at":
        return "atomic<%s>" % t[1]
    if k == "a":
        return "array<%s>" % wgsl(t[1]) if t[2] is None else "array<%s, %d>" % (wgsl(t[1]), t[2])
    if k == "st":
        return t[1]
    raise ValueError(t)


class StructDef:
    def __init__(self, name, members):
        self.name = name
        # members: list of dict(name, ty, builtin=None|str, location=None|int, size=None|int,
        #                       align=None|int, interp=None|str)
        self.members = members

    def wgsl(self):
        ms = []
        for m in self.members:
            at = ""
            if m.get("builtin"):
                at += "@builtin(%s) " % m["builtin"]
            if m.get("location") is not None:
                at += "@location(%d) " % m["location"]
            if m.get("blend_src"):
                at += "@second_blend_source "
            if m.get("interp"):
                at += "@interpolate(%s) " % m["interp"]
            if m.get("size"):
                at += "@size(%d) " % m["size"]
            if m.get("align"):
                at += "@align(%d) " % m["align"]
            ms.append("    %s%s: %s," % (at, m["name"], m.get("alias") or wgsl(m["ty"])))
        return "struct %s {\n%s\n}" % (self.name, "\n".join(ms))

    def data_members(self):
        """non-builtin members (the ones a host program fills)"""
        return [m for m in self.members if not m.get("builtin")]


def align_size(t, structs):
    """(align, size) by the WGSL rules.  structs: name -> StructDef.  Runtime arrays: size of
    one element (callers scale)."""
    k = t[0]
    if k == "s":
        s = SCALAR_SIZE[t[1]]
        return s, s
    if k == "at":
        return 4, 4
    if k == "v":
        s = SCALAR_SIZE[t[2]]
        n = t[1]
        return (2 * s, 2 * s) if n == 2 else ((4 * s, 3 * s) if n == 3 else (4 * s, 4 * s))
    if k == "m":
        ca, cs = align_size(V(t[2], t[3]), structs)
        return ca, t[1] * round_up(ca, cs)
    if k == "a":
        ea, es = align_size(t[1], structs)
        n = 1 if t[2] is None else t[2]
        return ea, n * round_up(ea, es)
    if k == "st":
        lay = struct_layout(structs[t[1]], structs)
        # As seen by a container, naga 24 takes a struct's alignment from its member *types*
        # only (explicit @align attributes are not part of the type); the struct's own size is
        # still rounded with the attribute-aware alignment.  The shader is translated with
        # naga's numbers, so they are what the GPU uses; cross-checked against naga each run.
        return lay["type_align"], lay["size"]
    raise ValueError(t)


def array_stride(t, structs):
    ea, es = align_size(t[1], structs)
    return round_up(ea, es)


def struct_layout(sd, structs, runtime_len=1):
    off = 0
    align = 1
    type_align = 1
    offs = []
    sizes = []
    for m in sd.members:
        a, s = align_size(m["ty"], structs)
        type_align = max(type_align, a)
        if m["ty"][0] == "a" and m["ty"][2] is None:
            s = max(runtime_len, 1) * array_stride(m["ty"], structs)
        if m.get("align"):
            a = m["align"]
        if m.get("size"):
            s = m["size"]
        off = round_up(a, off)
        offs.append(off)
        sizes.append(s)
        off += s
        align = max(align, a)
    return {"align": align, "type_align": type_align, "size": round_up(align, off),
            "offsets": offs, "sizes": sizes}


def has_runtime_array(sd):
    return bool(sd.members) and sd.members[-1]["ty"][0] == "a" and sd.members[-1]["ty"][2] is None


def contains_kind(t, structs, kinds):
    """does the type contain a scalar of one of `kinds` anywhere?"""
    k = t[0]
    if k == "s":
        return t[1] in kinds
    if k == "at":
        return t[1] in kinds
    if k == "v":
        return t[2] in kinds
    if k == "m":
        return t[3] in kinds
    if k == "a":
        return contains_kind(t[1], structs, kinds)
    if k == "st":
        return any(contains_kind(m["ty"], structs, kinds) for m in structs[t[1]].members)
    return False


def struct_deps(t):
    """struct names referenced by a type"""
    k = t[0]
    if k == "a":
        return struct_deps(t[1])
    if k == "st":
        return [t[1]]
    return []


def reachable_structs(t, structs, acc=None):
    acc = acc if acc is not None else []
    for n in struct_deps(t):
        if n not in acc:
            acc.append(n)
            for m in structs[n].members:
                reachable_structs(m["ty"], structs, acc)
    return acc


# -------------------------------------------------------------------------------------------
# expected Rust types (documented mapping; matrices as pinned by the repository's snapshot:
# matCxR<T> -> [[T; C]; R] for the plain representation)

GLAM_VEC = {("f32", 2): "glam::Vec2", ("f32", 3): "glam::Vec3", ("f32", 4): "glam::Vec4",
            ("f64", 2): "glam::DVec2", ("f64", 3): "glam::DVec3", ("f64", 4): "glam::DVec4",
            ("u32", 2): "glam::UVec2", ("u32", 3): "glam::UVec3", ("u32", 4): "glam::UVec4",
            ("i32", 2): "glam::IVec2", ("i32", 3): "glam::IVec3", ("i32", 4): "glam::IVec4",
            ("u64", 2): "glam::U64Vec2", ("u64", 3): "glam::U64Vec3", ("u64", 4): "glam::U64Vec4",
            ("i64", 2): "glam::I64Vec2", ("i64", 3): "glam::I64Vec3", ("i64", 4): "glam::I64Vec4"}
GLAM_MAT = {("f32", 2): "glam::Mat2", ("f32", 3): "glam::Mat3", ("f32", 4): "glam::Mat4",
            ("f64", 2): "glam::DMat2", ("f64", 3): "glam::DMat3", ("f64", 4): "glam::DMat4"}


def rust_type(t, repr, mod="m"):
    """Expected Rust type expression of a struct field of WGSL type t (not a runtime array)."""
    k = t[0]
    if k == "s" or k == "at":
        return t[1]
    if k == "v":
        n, kind = t[1], t[2]
        if repr == "glam" and (kind, n) in GLAM_VEC:
            return GLAM_VEC[(kind, n)]
        if repr == "nalgebra":
            return "nalgebra::SVector<%s, %d>" % (kind, n)
        return "[%s; %d]" % (kind, n)
    if k == "m":
        c, r, kind = t[1], t[2], t[3]
        if repr == "glam" and c == r and (kind, c) in GLAM_MAT:
            return GLAM_MAT[(kind, c)]
        if repr == "nalgebra":
            return "nalgebra::SMatrix<%s, %d, %d>" % (kind, r, c)
        return "[[%s; %d]; %d]" % (kind, c, r)
    if k == "a":
        if t[2] is None:
            return "Vec<%s>" % rust_type(t[1], repr, mod)
        return "[%s; %d]" % (rust_type(t[1], repr, mod), t[2])
    if k == "st":
        return "%s::%s" % (mod, t[1])
    raise ValueError(t)


def glam_representable(t, structs):
    """member types for which C10 makes a claim: scalars / vec2-4 of f32 i32 u32 (f64: encase
    has no f64, see DESIGN), square f32 matrices, arrays / structs / runtime arrays of those."""
    k = t[0]
    if k == "s":
        return t[1] in ("f32", "i32", "u32")
    if k == "at":
        return t[1] in ("f32", "i32", "u32")  # the Rust field is the plain scalar
    if k == "v":
        return t[2] in ("f32", "i32", "u32")
    if k == "m":
        return t[1] == t[2] and t[3] == "f32"
    if k == "a":
        return glam_representable(t[1], structs)
    if k == "st":
        return all(glam_representable(m["ty"], structs) for m in structs[t[1]].members)
    return False


VERTEX_FORMAT = {("f32", 1): "Float32", ("f32", 2): "Float32x2", ("f32", 3): "Float32x3",
                 ("f32", 4): "Float32x4", ("i32", 1): "Sint32", ("i32", 2): "Sint32x2",
                 ("i32", 3): "Sint32x3", ("i32", 4): "Sint32x4", ("u32", 1): "Uint32",
                 ("u32", 2): "Uint32x2", ("u32", 3): "Uint32x3", ("u32", 4): "Uint32x4",
                 ("f64", 1): "Float64", ("f64", 2): "Float64x2", ("f64", 3): "Float64x3",
                 ("f64", 4): "Float64x4"}


def vertex_format(t):
    if t[0] == "s":
        return VERTEX_FORMAT[(t[1], 1)]
    if t[0] == "v":
        return VERTEX_FORMAT[(t[2], t[1])]
    raise ValueError(t)


def vertex_format_size(fmt):
    base = 8 if fmt.startswith("Float64") else 4
    n = int(fmt.split("x")[1]) if "x" in fmt else 1
    return base * n


# -------------------------------------------------------------------------------------------
# probe values: a Rust expression for a value of the field type in which scalar component
# number k (in WGSL memory order) carries the value base+k; and the list of
# (wgsl_offset, kind, value) the byte image must show.


class ValueBuilder:
    def __init__(self, structs, repr, mod="m", runtime_len=1):
        self.structs = structs
        self.repr = repr
        self.mod = mod
        self.runtime_len = runtime_len
        self.counter = 1
        self.components = []  # (offset, kind, value)

    def lit(self, kind):
        v = self.counter
        self.counter += 1
        if kind == "f32":
            return "%d.0f32" % v, v
        if kind == "f64":
            return "%d.0f64" % v, v
        if kind == "i32":
            return "%di32" % v, v
        return "%du32" % v, v

    def build(self, t, off):
        k = t[0]
        if k == "s" or k == "at":
            e, v = self.lit(t[1])
            self.components.append((off, t[1], v))
            return e
        if k == "v":
            n, kind = t[1], t[2]
            es = []
            for i in range(n):
                e, v = self.lit(kind)
                self.components.append((off + i * SCALAR_SIZE[kind], kind, v))
                es.append(e)
            rt = rust_type(t, self.repr)
            if rt.startswith("glam::"):
                return "%s::new(%s)" % (rt, ", ".join(es))
            if rt.startswith("nalgebra::"):
                return "nalgebra::SMatrix([[%s]])" % ", ".join(es)
            return "[%s]" % ", ".join(es)
        if k == "m":
            c, r, kind = t[1], t[2], t[3]
            ca, cs = align_size(V(r, kind), self.structs)
            stride = round_up(ca, cs)
            cols = []
            for ci in range(c):
                es = []
                for ri in range(r):
                    e, v = self.lit(kind)
                    self.components.append((off + ci * stride + ri * SCALAR_SIZE[kind], kind, v))
                    es.append(e)
                cols.append(es)
            rt = rust_type(t, self.repr)
            if rt.startswith("glam::"):
                return "%s::from_cols_array_2d(&[%s])" % (
                    rt, ", ".join("[%s]" % ", ".join(es) for es in cols))
            if rt.startswith("nalgebra::"):
                return "nalgebra::SMatrix([%s])" % ", ".join("[%s]" % ", ".join(es) for es in cols)
            # plain representation is [[T; C]; R]: not the WGSL memory order; callers that need a
            # byte image do not use it (C10 is glam only).  Fill row-major placeholders.
            flat = [e for es in cols for e in es]
            rows = [flat[i * c:(i + 1) * c] for i in range(r)]
            return "[%s]" % ", ".join("[%s]" % ", ".join(x) for x in rows)
        if k == "a":
            stride = array_stride(t, self.structs)
            n = self.runtime_len if t[2] is None else t[2]
            es = [self.build(t[1], off + i * stride) for i in range(n)]
            if t[2] is None:
                return "vec![%s]" % ", ".join(es)
            return "[%s]" % ", ".join(es)
        if k == "st":
            sd = self.structs[t[1]]
            lay = struct_layout(sd, self.structs, self.runtime_len)
            fs = []
            for m, o in zip(sd.members, lay["offsets"]):
                if m.get("builtin"):
                    continue
                fs.append("%s: %s" % (m["name"], self.build(m["ty"], off + o)))
            return "%s::%s { %s }" % (self.mod, t[1], ", ".join(fs))
        raise ValueError(t)
