"""./check --setup : build, offline, everything the quick checks need."""
import time

from vlib import core


def main():
    t0 = time.time()
    try:
        core.build_drive()
        core.build_oracle()
        try:
            from vlib import probes
            probes.setup()
        except ImportError:
            pass
    except core.Inconclusive as e:
        core.log(str(e))
        print("setup failed")
        return 1
    print("setup ok in %.0fs" % (time.time() - t0))
    return 0
