"""Shared infrastructure of the /verif checks: paths, builds, running the driver, verdicts,
evidence files, known findings.  Pure stdlib."""
import fcntl
import hashlib
import json
import os
import random
import shutil
import subprocess
import sys
import time

VERIF = os.path.dirname(os.path.dirname(os.path.abspath(__file__)))
REPO = os.path.abspath(os.environ.get("VERIF_REPO", "/repo"))
WORK = os.path.join(VERIF, "work")
TARGET = os.path.join(VERIF, "target")
HARNESS = os.path.join(VERIF, "harness")
HARNESS_VERSION = "1"
NCPU = os.cpu_count() or 4

OFFLINE_ENV = {
    "CARGO_NET_OFFLINE": "true",
    "CARGO_TERM_COLOR": "never",
    "RUST_BACKTRACE": "0",
}


class Inconclusive(Exception):
    """Harness could not decide (build failure, too few cases, ...): exit 2, never a violation."""


def env(**extra):
    e = dict(os.environ)
    e.update(OFFLINE_ENV)
    e.pop("RUSTFLAGS", None)
    e.update({k: str(v) for k, v in extra.items()})
    return e


def seed():
    try:
        return int(os.environ.get("VERIF_SEED", "1"))
    except ValueError:
        return 1


def rng(*salt):
    h = hashlib.sha256(("%d|" % seed() + "|".join(str(s) for s in salt)).encode()).digest()
    return random.Random(int.from_bytes(h[:8], "big"))


def log(*a):
    print(*a, file=sys.stderr, flush=True)


def sh(cmd, cwd=None, timeout=None, check=True, capture=True, extra_env=None, stdin=None):
    e = env(**(extra_env or {}))
    p = subprocess.run(cmd, cwd=cwd, env=e, timeout=timeout, stdin=stdin,
                       stdout=subprocess.PIPE if capture else None,
                       stderr=subprocess.PIPE if capture else None, text=True)
    if check and p.returncode != 0:
        raise Inconclusive("command failed (%d): %s\n%s\n%s" % (
            p.returncode, " ".join(cmd) if isinstance(cmd, list) else cmd,
            (p.stdout or "")[-3000:], (p.stderr or "")[-6000:]))
    return p


_tree_key = None


def tree_key():
    """sha256 over the sources of the tree under test (what cargo would rebuild on)."""
    global _tree_key
    if _tree_key is None:
        h = hashlib.sha256()
        base = os.path.join(REPO, "wgsl_to_wgpu")
        files = [os.path.join(REPO, "Cargo.lock"), os.path.join(base, "Cargo.toml")]
        for root, dirs, fs in os.walk(os.path.join(base, "src")):
            dirs.sort()
            for f in sorted(fs):
                files.append(os.path.join(root, f))
        for f in files:
            h.update(f.encode())
            try:
                with open(f, "rb") as fh:
                    h.update(fh.read())
            except OSError:
                h.update(b"<missing>")
        h.update(HARNESS_VERSION.encode())
        _tree_key = h.hexdigest()[:16]
    return _tree_key


_harness_key = None


def harness_key():
    """sha over the framework's own sources: campaigns are rebuilt when the framework changes"""
    global _harness_key
    if _harness_key is None:
        h = hashlib.sha256()
        for sub in ("gen", "vlib", "harness"):
            for root, dirs, fs in os.walk(os.path.join(VERIF, sub)):
                dirs[:] = sorted(d for d in dirs if d not in ("__pycache__", "target"))
                for f in sorted(fs):
                    if f.endswith((".py", ".rs", ".toml", ".wgsl")):
                        fp = os.path.join(root, f)
                        h.update(fp.encode())
                        with open(fp, "rb") as fh:
                            h.update(fh.read())
        _harness_key = h.hexdigest()[:10]
    return _harness_key


class Lock:
    def __init__(self, name):
        os.makedirs(WORK, exist_ok=True)
        self.path = os.path.join(WORK, ".lock-" + name)

    def __enter__(self):
        self.f = open(self.path, "w")
        fcntl.flock(self.f, fcntl.LOCK_EX)
        return self

    def __exit__(self, *a):
        fcntl.flock(self.f, fcntl.LOCK_UN)
        self.f.close()


def write_if_changed(path, text):
    try:
        with open(path) as f:
            if f.read() == text:
                return False
    except OSError:
        pass
    os.makedirs(os.path.dirname(path), exist_ok=True)
    with open(path, "w") as f:
        f.write(text)
    return True


DRIVE_MANIFEST = """[package]
name = "drive"
version = "0.1.0"
edition = "2021"

[[bin]]
name = "drive"
path = "{src}/main.rs"

[dependencies]
wgsl_to_wgpu = {{ path = "{repo}/wgsl_to_wgpu", features = ["verif"] }}
naga = {{ version = "=24.0.0", features = ["wgsl-in"] }}
serde_json = "1"
syn = {{ version = "2", features = ["full", "visit-mut"] }}
prettyplease = "0.2"
libc = "0.2"
quote = "1"
proc-macro2 = "1"

[profile.dev]
debug = 1
[profile.dev.package."*"]
opt-level = 2
[profile.dev.package.wgsl_to_wgpu]
opt-level = 0

[workspace]
"""


def _cargo_lock_into(d):
    src = os.path.join(REPO, "Cargo.lock")
    if not os.path.exists(src):
        src = "/repo/Cargo.lock"
    dst = os.path.join(d, "Cargo.lock")
    if not os.path.exists(dst) and os.path.exists(src):
        shutil.copy(src, dst)


def build_drive(flavor="dev"):
    """Build the driver against $VERIF_REPO (hooks on).  Returns the path of the binary.
    flavor: dev | release | tsan | asan (the sanitizer flavours use the nightly toolchain;
    release = optimised, debug assertions and overflow checks off - what a user's build script
    gets under `cargo build --release`)."""
    repo_tag = hashlib.sha256(REPO.encode()).hexdigest()[:8]
    d = os.path.join(WORK, "drive-build-%s" % repo_tag)
    with Lock("drive-" + repo_tag + "-" + flavor):
        os.makedirs(d, exist_ok=True)
        write_if_changed(os.path.join(d, "Cargo.toml"), DRIVE_MANIFEST.format(
            src=os.path.join(HARNESS, "drive", "src"), repo=REPO))
        _cargo_lock_into(d)
        tdir = os.path.join(TARGET, "drive-%s-%s" % (repo_tag, flavor))
        cmd = ["cargo"]
        extra = {"CARGO_TARGET_DIR": tdir}
        if flavor == "dev":
            cmd += ["build", "--offline"]
            binp = os.path.join(tdir, "debug", "drive")
        elif flavor == "release":
            cmd += ["build", "--offline", "--release"]
            binp = os.path.join(tdir, "release", "drive")
        elif flavor == "tsan":
            cmd = ["cargo", "+nightly", "build", "--offline", "-Zbuild-std",
                   "--target", "x86_64-unknown-linux-gnu"]
            extra["RUSTFLAGS"] = "-Zsanitizer=thread -Cforce-frame-pointers=yes"
            binp = os.path.join(tdir, "x86_64-unknown-linux-gnu", "debug", "drive")
        elif flavor == "asan":
            cmd = ["cargo", "+nightly", "build", "--offline",
                   "--target", "x86_64-unknown-linux-gnu"]
            extra["RUSTFLAGS"] = "-Zsanitizer=address -Cforce-frame-pointers=yes"
            binp = os.path.join(tdir, "x86_64-unknown-linux-gnu", "debug", "drive")
        else:
            raise ValueError(flavor)
        t0 = time.time()
        e = env(**extra)
        p = subprocess.run(cmd, cwd=d, env=e, stdout=subprocess.PIPE, stderr=subprocess.PIPE,
                           text=True)
        if p.returncode != 0 or not os.path.exists(binp):
            raise Inconclusive("building drive (%s) against %s failed:\n%s" % (
                flavor, REPO, p.stderr[-6000:]))
        log("[build] drive(%s) ready in %.1fs" % (flavor, time.time() - t0))
        return binp


def build_oracle():
    """Build the reference binary (naga, wgpu-core, real wgpu).  Independent of the tree under
    test, so it is built once."""
    d = os.path.join(HARNESS, "oracle")
    with Lock("oracle"):
        _cargo_lock_into(d)
        tdir = os.path.join(TARGET, "oracle")
        p = subprocess.run(["cargo", "build", "--offline"], cwd=d,
                           env=env(CARGO_TARGET_DIR=tdir), stdout=subprocess.PIPE,
                           stderr=subprocess.PIPE, text=True)
        binp = os.path.join(tdir, "debug", "oracle")
        if p.returncode != 0 or not os.path.exists(binp):
            raise Inconclusive("building oracle failed:\n%s" % p.stderr[-5000:])
        return binp


def run_oracle(mode, jobs, name, timeout=1800, partial_ok=False):
    binp = build_oracle()
    jp = os.path.join(WORK, name + ".ojobs.jsonl")
    rp = os.path.join(WORK, name + ".ores.jsonl")
    os.makedirs(os.path.dirname(jp), exist_ok=True)
    with open(jp, "w") as f:
        for j in jobs:
            f.write(json.dumps(j) + "\n")
    if os.path.exists(rp):
        os.remove(rp)
    try:
        p = subprocess.run([binp, mode, jp, rp], env=env(), stdout=subprocess.PIPE,
                           stderr=subprocess.PIPE, text=True, timeout=timeout)
    except subprocess.TimeoutExpired:
        # (a wall-clock watchdog, never a verdict)
        if partial_ok and os.path.exists(rp):
            log("[oracle] %s timed out after %ds: using the results written so far" % (
                mode, timeout))
            return read_jsonl(rp)
        raise Inconclusive("oracle %s timed out after %d s" % (mode, timeout))
    if p.returncode != 0:
        raise Inconclusive("oracle %s failed rc=%s: %s" % (mode, p.returncode, p.stderr[-3000:]))
    return read_jsonl(rp)


def run_drive(binp, jobs, name, threads=1, shuffle=None, markers=False, timeout=1800,
              extra_env=None, cwd=None, wrapper=None):
    """Write jobs to work/<name>.jobs.jsonl, run `drive run`, return the list of result dicts
    (in job order where ids are unique)."""
    os.makedirs(WORK, exist_ok=True)
    jp = os.path.join(WORK, name + ".jobs.jsonl")
    rp = os.path.join(WORK, name + ".results.jsonl")
    os.makedirs(os.path.dirname(jp), exist_ok=True)
    with open(jp, "w") as f:
        for j in jobs:
            f.write(json.dumps(j) + "\n")
    if os.path.exists(rp):
        os.remove(rp)
    cmd = [binp, "run", jp, rp]
    if threads > 1:
        cmd += ["--threads", str(threads)]
    if shuffle is not None:
        cmd += ["--shuffle", str(shuffle)]
    if markers:
        cmd += ["--markers"]
    if wrapper:
        cmd = wrapper + cmd
    p = subprocess.run(cmd, env=env(**(extra_env or {})), cwd=cwd, timeout=timeout,
                       stdout=subprocess.PIPE, stderr=subprocess.PIPE, text=True)
    res = read_jsonl(rp) if os.path.exists(rp) else []
    return p, res


def run_drive_sharded(binp, jobs, name, shards=None, timeout=1800, extra_env=None):
    """Run independent jobs over several driver processes; results keyed by id."""
    shards = shards or min(NCPU, max(1, len(jobs) // 8))
    parts = [jobs[i::shards] for i in range(shards)]
    procs = []
    os.makedirs(os.path.join(WORK, os.path.dirname(name)), exist_ok=True)
    for i, part in enumerate(parts):
        jp = os.path.join(WORK, "%s.%d.jobs.jsonl" % (name, i))
        rp = os.path.join(WORK, "%s.%d.results.jsonl" % (name, i))
        with open(jp, "w") as f:
            for j in part:
                f.write(json.dumps(j) + "\n")
        if os.path.exists(rp):
            os.remove(rp)
        procs.append((subprocess.Popen([binp, "run", jp, rp], env=env(**(extra_env or {})),
                                       stdout=subprocess.PIPE, stderr=subprocess.PIPE, text=True),
                      rp, part))
    out = {}
    crashed = []
    for p, rp, part in procs:
        try:
            so, se = p.communicate(timeout=timeout)
        except subprocess.TimeoutExpired:
            p.kill()
            so, se = p.communicate()
            crashed.append(("timeout", se[-2000:]))
        if p.returncode != 0:
            crashed.append((p.returncode, (se or "")[-2000:]))
        if os.path.exists(rp):
            for r in read_jsonl(rp):
                out[r["id"]] = r
    return out, crashed


def read_jsonl(path):
    out = []
    with open(path) as f:
        for line in f:
            line = line.strip()
            if line:
                try:
                    out.append(json.loads(line))
                except json.JSONDecodeError:
                    pass
    return out


# --------------------------------------------------------------------------------------------
# verdicts


class Violation:
    def __init__(self, rule, culprit, what, replay=None):
        self.rule = rule
        self.culprit = culprit
        self.what = what
        self.replay = replay or {}

    def signature(self, prop):
        return "%s:%s:%s" % (prop, self.rule, self.culprit)


def load_known():
    p = os.path.join(VERIF, "known_findings.json")
    try:
        with open(p) as f:
            return json.load(f)
    except OSError:
        return {"open": [], "fixed": []}


def finish(prop, tier, level, t0, violations, coverage, assumptions=None, inconclusive=None):
    """Print verdict lines, write evidence, exit with 0/1/2."""
    known = load_known()
    open_sigs = {k["signature"]: k for k in known.get("open", []) if k.get("property") == prop}
    by_sig = {}
    for v in violations:
        by_sig.setdefault(v.signature(prop), []).append(v)
    unlisted = 0
    matched = []
    rdir = os.path.join(VERIF, "replays", prop)
    for sig, vs in sorted(by_sig.items()):
        if sig in open_sigs:
            matched.append(sig)
            print("KNOWN-FINDING: property=%s %s — %s (%d occurrence(s) this run)" % (
                prop, sig, open_sigs[sig].get("what", ""), len(vs)))
            continue
        unlisted += 1
        os.makedirs(rdir, exist_ok=True)
        rp = os.path.join(rdir, hashlib.sha256(sig.encode()).hexdigest()[:12] + ".json")
        with open(rp, "w") as f:
            json.dump({"property": prop, "signature": sig, "what": vs[0].what,
                       "occurrences": len(vs), "seed": seed(), "tier": tier,
                       "tree": tree_key(), "repo": REPO,
                       "replay_cmd": "./check %s --replay %s" % (prop, rp),
                       "case": vs[0].replay,
                       "more": [v.replay for v in vs[1:4]]}, f, indent=1, default=str)
        print("VIOLATION property=%s replay=%s" % (prop, rp))
        log("  signature: %s\n  what: %s" % (sig, vs[0].what))
    for sig in sorted(open_sigs):
        if sig not in matched:
            log("note: known finding %s was not exercised by this run" % sig)
    if os.environ.get("VERIF_REPLAY"):
        # replay of one recorded case: report whether the violation shows again; no evidence
        # file, no coverage thresholds
        print("REPLAY property=%s reproduced=%s signatures=%s" % (
            prop, bool(by_sig), sorted(by_sig)[:6]))
        sys.exit(1 if by_sig else 0)
    cov = dict(coverage)
    cov.setdefault("tree_sha", tree_key())
    cov["known_findings_matched"] = matched
    cov["inconclusive"] = list(inconclusive or [])
    ev = {
        "property_id": prop, "tier": tier, "seed": seed(), "level": level,
        "coverage": cov, "assumptions": list(assumptions or []),
        "wall_s": round(time.time() - t0, 2), "violations": unlisted,
        "verdict": "violated" if unlisted else ("inconclusive" if inconclusive else "held"),
    }
    problems = evidence_problems(ev)
    os.makedirs(os.path.join(VERIF, "evidence"), exist_ok=True)
    with open(os.path.join(VERIF, "evidence", prop + ".json"), "w") as f:
        json.dump(ev, f, indent=1, default=str)
    if unlisted:
        sys.exit(1)
    if inconclusive or problems:
        for r in list(inconclusive or []) + problems:
            print("INCONCLUSIVE property=%s reason=%s" % (prop, r))
        sys.exit(2)
    print("HELD property=%s tier=%s seed=%d evaluations=%s distinct_nontrivial=%s wall=%.1fs" % (
        prop, tier, seed(), cov.get("evaluations"), cov.get("distinct_nontrivial"),
        time.time() - t0))
    sys.exit(0)


def evidence_problems(ev):
    c = ev["coverage"]
    probs = []
    if not isinstance(c.get("evaluations"), int) or c["evaluations"] < 1:
        probs.append("evidence: evaluations < 1")
    if not isinstance(c.get("distinct_nontrivial"), int) or c["distinct_nontrivial"] < 2:
        probs.append("evidence: distinct_nontrivial < 2 (monitor observed too little)")
    if not c.get("rule"):
        probs.append("evidence: rule missing")
    if not c.get("samples"):
        probs.append("evidence: samples missing")
    return probs


def corpus_fixture_shaders():
    """The repository's own shaders: always part of every corpus."""
    out = []
    for d in ["wgsl_to_wgpu/src/data", "wgsl_to_wgpu/src/data/bindgroup",
              "wgsl_to_wgpu/src/data/struct", "wgsl_to_wgpu/tests/wgsl", "example/src"]:
        p = os.path.join(REPO, d)
        if os.path.isdir(p):
            for f in sorted(os.listdir(p)):
                if f.endswith(".wgsl"):
                    out.append(os.path.join(p, f))
    return out


def hash_hex(data):
    """the driver's content hash (harness/drive/src/main.rs hash_hex), for comparing a string the
    driver hashed with one the checker holds"""
    M = (1 << 64) - 1
    a, b = 0xcbf29ce484222325, 0x84222325cbf29ce4
    for x in data:
        a ^= x
        a = (a * 0x100000001b3) & M
        b = (b + x + 0x9e3779b97f4a7c15) & M
        b ^= b >> 29
        b = (b * 0xbf58476d1ce4e5b9) & M
    return "%016x%016x%08x" % (a, b, len(data))
