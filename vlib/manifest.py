#!/usr/bin/env python3
"""Writes /verif/MANIFEST.json from the table below (run: python3 -m vlib.manifest)."""
import json
import os
import sys

HERE = os.path.dirname(os.path.dirname(os.path.abspath(__file__)))

HOOK_COMMITS = ["c460f17"]

# id -> (category, technique, level text, level note, design ref)
CHECKS = {
    "C11": ("exploration",
            "runtime monitoring: Result/panic of the real generator observed over a "
            "bounded-exhaustive + random index workload, judged by a reference predicate",
            "Every ordered sequence of <=3 (quick) / <=4 (thorough) resource variables over a "
            "4x3 (group,binding) grid, each with validation off/on and variables unused/used, "
            "plus random multisets with indices up to u32::MAX and mixed resource kinds, is run "
            "through the real generator; outcome (Ok / typed error + payload / panic) and the "
            "binding numbers of every Ok module are compared with a reference predicate over "
            "the multiset. Exhaustive for the small grid, sampled beyond it. The random part mixes "
            "resource kinds incl. runtime-array structs and draws derive switches at random; "
            "declaration-only sources (no entry point) are part of both parts.",
            "naga's parse/validate verdict (called directly) decides what is inside the accepted "
            "language; binding numbers of Ok modules are read from the returned text.",
            "DESIGN.md §8 C11"),
    "C17": ("exploration",
            "runtime monitoring: differential mutation campaign (generator vs naga called "
            "directly), every error rendering route executed under catch_unwind; ASan build in "
            "the thorough tier",
            "150k (quick) / 3M (thorough) seeded byte-, token-, line- and word-level mutants of "
            "the repository's shaders and a hostile corpus are run through naga directly and "
            "through the generator with validation off and on (capability sets all/none/"
            "default); rules: front end rejects => ParseError with the identical diagnostic; "
            "validator rejects => ValidationError; no panic on those; sources that pass give "
            "identical outcomes with validation on (random derive switches per mutant, random "
    "capability subsets, and a sweep of every single-capability / all-minus-one set over the "
    "corpus). Thorough: 8M mutants, 400k in an AddressSanitizer build, 20k under memcheck.",
            "naga called directly on the same text is the reference; panics that naga itself "
            "raises are recorded as findings against the dependency.",
            "DESIGN.md §8 C17"),
}
CHECKS["C19"] = (
    "fault_enumeration",
    "runtime monitoring under injected faults: child processes whose PATH resolves `rustfmt` to "
    "fault stubs, failpoint delay between spawn and write; returned text compared by canonical "
    "form with the formatter-off program; hang classified by idle CPU",
    "Every cell of {18 formatter faults: absent, exit!=0 after/without reading, killed by "
    "SIGKILL/SIGTERM before/after reading, partial output then killed/failed, garbage + failure, "
    "reads 1 KiB then fails, empty output with exit 0 (with and without reading), slow but "
    "correct, correct but in two pieces a second apart, output cut inside a multi-byte "
    "character, whole input echoed then failure} x "
    "{output below/above the 64 KiB pipe buffer} x {failpoint delay 0/50 ms} is run "
    "in its own child; the real formatter is run over the whole corpus and over five derive "
    "option sets; six shaders above the pipe buffer run concurrently on six threads; a history "
    "cell switches the formatter between calls of one thread (fault after a long output, then a "
    "healthy formatter and a shorter text ...); "
    "every returned text must be Ok and canonically (token sequence) equal to the "
    "formatter-off program; no panic; no blocked child.",
    "canonical form = syn::parse_file -> prettyplease::unparse; the fault list is the "
    "property's own plus close variants; exit 0 with truncated output is undetectable and out "
    "of scope.",
    "DESIGN.md §8 C19")
CHECKS["C20"] = (
    "exploration",
    "runtime monitoring of cost: hook step counters + thread CPU time per call in child "
    "processes under RLIMIT_CPU, on shader families of growing call depth / type nesting, "
    "bounded by a polynomial in the naga IR size",
    "59 families: call chains and diamonds (value and void calls, width 2-4, "
    "depth up to 64), calls buried in if/loop/continuing/switch, several entry points over one "
    "deep graph, fan-out, many call sites, struct towers (arity 2/3/8, with arrays), let-chain "
    "DAGs (plain and as call argument), control flow nested up to 24 deep (multi-selector "
    "switch, if/else, loop, continuing, block), long bodies, wide shaders, a formatter-on family "
    "above the pipe buffer, lattices (2-4 different helpers per level), diamonds from which no "
    "variable is reachable, pointer-parameter diamonds, array types nested up to 100 deep under "
    "glam/nalgebra/bytemuck/encase, else-if chains of up to 100 arms, up to 300 functions "
    "before a deep diamond, chains of depth 256, override / const / alias chains, 'magnitude' "
    "families in which one number of the shader grows to its maximum at constant shader size, "
    "and an error-path family (sparse group indices up to 2^32-1): "
    "each generated in a child under RLIMIT_CPU=10 s and RLIMIT_AS=6 GiB. "
    "Oracle: hook steps <= 8*N^2 (N = naga IR size), CPU <= 2 s for <= 400 lines, no memory "
    "blow-up, no blocked child, fitted growth exponent of steps vs N <= 2.5 per family.",
    "bound constants are ours (far above a linear walk); shapes are sampled, not all call graphs.",
    "DESIGN.md §8 C20")
CHECKS["C18"] = (
    "exploration",
    "runtime monitoring: equality monitor over (source, path, options) keys across processes / "
    "threads / call orders / call histories / working directories / environments; process-state "
    "monitor (descriptors, children, cwd, environment, signal disposition, umask) around every "
    "single-threaded call; strace syscall monitor bracketed by marker syscalls; ThreadSanitizer "
    "and Miri runs in the thorough tier",
    "~470 keys (corpus + generated many-struct/many-group shaders + shaders the tool refuses "
    "(doubly declared slots, gaps, front-end errors) x 8 option sets incl. narrow capability "
    "sets x embedded / 3 include paths) are generated in 9 (quick) / 25 (thorough) processes with fresh hash "
    "seeds, shuffled orders, two working directories (one holding files named like the include "
    "paths), three environments, on 16 threads and back to back; all results per key must be "
    "byte-identical. One process runs under strace: between the driver's marker syscalls the "
    "calling thread may only use memory-management/futex/getrandom/clock syscalls, plus the "
    "pipe/spawn/wait protocol (own descriptors only, openat only of /dev/null, exec only of "
    "rustfmt) when the formatter is on. Also: a 16-thread stress run on shaders with 40-120 "
    "deep call chains, formatter-on outputs above 64 KiB on 6 threads and under strace, a shader "
    "with three push constants, a correct-but-slow formatter (bytes must not depend on "
    "speed), four environments for the formatter-on runs (RUSTFMT etc. pointing elsewhere), "
    "and a history run in which the formatter is missing / failing for some calls and back for "
    "the next. Thorough: TSan build x5 runs, Miri with 4 seeds.",
    "environment reads are invisible to strace (covered differentially); byte identity with "
    "rustfmt on assumes no rustfmt.toml in the working directory.",
    "DESIGN.md §8 C18")
CHECKS["C02"] = (
    "exploration",
    "runtime monitoring: layouts recorded by a shadow device while executing the generated code, "
    "judged by real wgpu-core Interface::check_stage, transcribed create_bind_group_layout entry "
    "rules, and replay on the real wgpu device (llvmpipe)",
    "160 (quick) / 1500 (thorough) seeded shaders covering every sampled/depth/multisampled "
    "texture type, the storage format x access x dimension sweep, buffers of every shape, "
    "samplers, sparse/huge indices; the generated get_bind_group_layout/create_pipeline_layout "
    "are executed against a recording device; every entry point is validated with wgpu-core's "
    "own check_stage against the recorded layouts in pipeline-layout order; every recorded "
    "entry is judged by the unconditional rules of create_bind_group_layout; everything is "
    "replayed on the real device for calibration.",
    "filterability as assumed by the property; device limits/features are not attributed to the "
    "tool; the workload's use sets are cross-checked with naga's analysis each run.",
    "DESIGN.md §8 C02")
CHECKS["C03"] = (
    "exploration",
    "runtime monitoring: visibility of recorded layout entries and push-constant stages vs "
    "stage sets known by construction from the workload generator's call graph",
    "Same corpus as C02 with helper DAGs (chain, diamond, fan, layers, random, cross-stage "
    "shared helpers), accesses and calls placed at 24 control-flow sites (branches, loop "
    "bodies, continuing, break-if, for init/cond/update, switch cases, call arguments, return "
    "expressions ...), 1-2 entry points per stage: recorded visibility must equal the "
    "reachability-based stage set exactly, per binding; a run fails as inconclusive if a "
    "placement site was never generated.",
    "only access forms on which WGSL 'statically accessed' is unambiguous are generated; the "
    "model is cross-checked against naga's global-use analysis in C02's run.",
    "DESIGN.md §8 C03")
CHECKS["C04"] = (
    "exploration",
    "runtime monitoring: call log of a recording device/passes with unique resource ids while "
    "executing from_bindings / set / set_bind_groups / BindGroups::set / create_pipeline_layout; "
    "exactly-once and conservation checks",
    "For every group of every shader the probe builds the group from a struct literal naming "
    "exactly the WGSL variables (compile error = surface mismatch), with a fresh id per field; "
    "the create_bind_group log must carry each id at its variable's @binding exactly once with "
    "the group's own layout; each of 3 setting routes x 3 pass kinds must bind exactly "
    "{(N, group N)}; the pipeline layout must list descriptor-equal layouts in index order.",
    "dynamic offsets are never generated by the tool and not exercised.",
    "DESIGN.md §8 C04")
CHECKS["C13"] = (
    "exploration",
    "runtime monitoring: PipelineLayoutDescriptor recorded by the shadow device and the value "
    "of PUSH_CONSTANT_STAGES vs WGSL size from an independent layout calculator and stage sets "
    "known by construction",
    "Shaders with and without a push constant (scalars, vectors incl. vec3, matrices, arrays, "
    "padded structs) used by none/one/several stages directly or through helpers: exactly one "
    "range 0..WGSL size (multiple of 4) with stages = PUSH_CONSTANT_STAGES = using stages "
    "(fallback: entry stages); none and no constant otherwise.",
    "push constant types are kept <= 128 bytes.",
    "DESIGN.md §8 C13")
CHECKS["C05"] = (
    "exploration",
    "runtime monitoring: rustc accept/reject of the module with bytemuck checks on, and "
    "offset_of!/size_of read at run time from the same structs, judged by an independent WGSL "
    "layout calculator (cross-checked with naga's Layouter each run)",
    "Per (shader, representation): the module generated with the bytemuck host-shareable switch "
    "on is compiled (fix-point loop keeps per-module verdicts and messages); the same shader "
    "without derives is compiled and its struct layouts are read at run time. Soundness "
    "(accepted => layout == WGSL, observed on the accepted module itself), completeness "
    "(layout differs => rejected, and every differing member/size is named by an assertion), "
    "precision (a named member really differs). Workload includes vec3 traps, all matrix "
    "shapes, nesting (up to 9 array / 10 struct levels), arrays, @size/@align, isolated "
    "single-offset mismatches, structs that are host-shareable only through members of members "
    "or 2-D arrays, option sets with validation on. The same jobs are also run through a "
    "release build of the generator (no debug assertions): the texts must be identical.",
    "nalgebra is a stand-in crate; bool members have no layout and are excluded; the layout "
    "model follows naga where naga deviates from the WGSL text (struct alignment ignores "
    "member @align when nested).",
    "DESIGN.md §8 C05")
CHECKS["C06"] = (
    "exploration",
    "runtime monitoring: TypeId/type_name/offset_of of every field of the compiled structs and "
    "the syn item inventory, compared with the documented leaf-type table composed by the "
    "workload generator",
    "Every field of every emitted struct of the struct and entry families, under Rust / Glam / "
    "Nalgebra, is compared by TypeId with the expected Rust type expression; names and order "
    "come from the item inventory; trailing runtime arrays must be Vec<E> marked runtime-sized. "
    "The leaf table (3 scalar kinds + f64, vec2-4, 9 matrix shapes x 2, atomics, nested arrays) "
    "is covered by directed shaders in every run.",
    "plain-representation matrices as pinned by the repository's snapshot; nalgebra stand-in.",
    "DESIGN.md §8 C06")
CHECKS["C08"] = (
    "exploration",
    "runtime monitoring: set (with multiplicity) of top-level pub struct items of every returned "
    "module vs the reachability closure computed from the workload spec",
    "All shaders of the struct, entry and bind families under all their option sets: the "
    "emitted struct names must equal exactly {reachable from a module-scope variable through "
    "members/arrays/arrays of arrays/runtime arrays} + {entry parameters that are not an entry "
    "result}, each once. Roles generated: host, push, private, workgroup, vertex-in, fragment-in, "
    "output only, output reused as input, host+input, host+output, local only, unused.",
    "helper types VertexEntry/FragmentEntry/OverrideConstants are not WGSL structs.",
    "DESIGN.md §8 C08")
CHECKS["C09"] = (
    "exploration",
    "runtime monitoring: trait-implementation probes (autoref specialisation) in the compiled "
    "module, derive lists / repr / assertions from the item inventory, and equality of two "
    "projections of the output across option sets",
    "Full 16 x 3 option matrix for a sample of shaders plus 3-4 option sets for all others: "
    "each struct's Debug/Clone/Copy/PartialEq/Pod/Zeroable/ShaderType/Serialize/Deserialize "
    "and repr(C) and layout assertions must follow the role x switch table; outputs of one "
    "shader may differ only in derive lists/assertions (same representation) or additionally "
    "field types (different representation). The matrix cases are regenerated under two "
    "build-script environments (CARGO_CFG_TARGET_ARCH=wasm32, PROFILE, OPT_LEVEL ...): the texts "
    "must not change.",
    "trait probes need a compiling module; for rejected modules the derive list is observed.",
    "DESIGN.md §8 C09")
CHECKS["C10"] = (
    "exploration",
    "runtime monitoring: byte images written by encase Storage/UniformBuffer for probe values "
    "with a unique number per scalar component, decoded at the offsets given by an independent "
    "WGSL layout calculator",
    "Every host-shareable struct built from glam-representable members (incl. vec3 traps, "
    "arrays of vec3, mat3x3, 32-bit atomics, nesting, runtime arrays with 0/1/2/4 elements, "
    "@size/@align "
    "members) in the encase+glam configuration: each component must sit at its WGSL offset, the "
    "image length must be the WGSL size; a module that does not compile in that configuration "
    "although all its host structs are representable is a violation too.",
    "f64 and non-square matrices are outside (encase/glam have no equivalent).",
    "DESIGN.md §8 C10")
CHECKS["C07"] = (
    "exploration",
    "runtime monitoring: VERTEX_ATTRIBUTES / vertex_buffer_layout / <entry>_entry values "
    "evaluated in the compiled module vs spec + offset_of!/size_of taken by the probe; "
    "transcribed wgpu vertex-buffer rules; real wgpu-core check_stage with those attributes; "
    "create_render_pipeline replay on the real device",
    "Entry family x 4 option sets (representations x bytemuck/encase switches): one attribute "
    "per @location member with the spec's location/format and the Rust field's offset, none for "
    "builtins; stride = size_of; one buffer per struct parameter in parameter order, each "
    "parameter's step mode checked by passing Instance at one position at a time; wgpu's "
    "stride/offset/location rules; vertex-stage check_stage with the attributes as inputs.",
    "64-bit formats assumed supported on the model device; nalgebra stand-in.",
    "DESIGN.md §8 C07")
CHECKS["C12"] = (
    "exploration",
    "runtime monitoring: HashMaps returned by OverrideConstants::constants() and carried by the "
    "entry helpers for many assignments, vs expected key/value sets and naga's own "
    "process_overrides on the recorded maps",
    "Shaders with 1-5 overrides (bool/i32/u32/f32 x default x @id, dependent defaults), 8 "
    "assignments each (extremes, None/Some): the struct literal in the probe fixes field names, "
    "types and optionality; the map must hold exactly the required + set optional overrides "
    "keyed by decimal @id or name with the numeric value; naga's override resolution must accept "
    "it and see the supplied values; entry helpers must carry the same map. Thorough: real "
    "create_compute_pipeline.",
    "f32 values compare after rounding to f32.",
    "DESIGN.md §8 C12")
CHECKS["C14"] = (
    "exploration",
    "runtime monitoring: ENTRY_* / *_WORKGROUP_SIZE values, ComputePipelineDescriptor recorded by "
    "the shadow device with object ids, values returned by entry helpers and state builders "
    "(pointer identity) vs the spec",
    "Entry family x 4 option sets: exact names incl. non-ASCII/mixed case; compute constructors "
    "target their entry with a module created from this module's SOURCE and its own pipeline "
    "layout; workgroup sizes from literals/constants with missing dims 1; fragment target count "
    "= 1 + highest written location (type-level: array length); vertex buffer count = struct "
    "parameters incl. builtin-only structs; vertex_state/fragment_state forward by identity.",
    "override-dependent workgroup sizes are outside the statement.",
    "DESIGN.md §8 C14")
CHECKS["C15"] = (
    "exploration",
    "runtime monitoring: type_name and bit pattern of every exported constant evaluated in the "
    "compiled module vs the value the workload generator wrote (cross-checked with naga's "
    "constant evaluation); inventory of pub const items",
    "2-9 constants per shader over all scalar types, explicit/inferred types, suffixes, "
    "zero-value constructors, references, expressions, negation, -0.0 (also as a product), "
    "extreme/subnormal floats by bit pattern, non-scalar constants that must be skipped; x "
    "embedded/include x formatter on/off.",
    "negative f64 constants are not expressible in naga 24 and not generated.",
    "DESIGN.md §8 C15")
CHECKS["C16"] = (
    "exploration",
    "runtime monitoring: SOURCE evaluated in the compiled module and the ShaderModuleDescriptor "
    "recorded by the shadow device vs the original bytes; include_str! literal value and "
    "canonical form without SOURCE for the include variant",
    "Const + bind family texts with quotes, backslashes, braces, raw-string look-alikes, CR/LF/"
    "CRLF, control characters, DEL, non-ASCII, non-BMP in comments and identifiers; 12 hostile "
    "include paths (files put in place so the module compiles); formatter on/off: SOURCE and the "
    "string handed to the device must be byte-identical to the input; the include variant must "
    "be include_str! of exactly the given path and otherwise canonically equal. Also: eight "
    "formatter faults with the formatter on (SOURCE compared by content hash), a caller that "
    "reuses its buffer (same address and length, other text), and a build-script environment "
    "(CARGO_MANIFEST_DIR, OUT_DIR ...) with absolute include paths inside and outside it.",
    "a run is inconclusive if one of the required character classes was never generated.",
    "DESIGN.md §8 C16")
CHECKS["C01"] = (
    "exploration",
    "runtime monitoring of the output as a program: rustc verdicts (JSON diagnostics attributed "
    "through macro expansion chains, fix-point loop) on every distinct returned text against "
    "the real wgpu 24.0.5 / bytemuck / encase / serde / glam, with a classifier that admits only "
    "the tool's own layout assertions and bytemuck's padding check",
    "All texts of the four workload families (all their option sets incl. the full 16x3 derive "
    "matrix and formatter/validation variants), the repository's shaders under 5 option sets "
    "~40 hostile-identifier shaders, and the texts returned under six formatter faults "
    "are type-checked against the real crates; every module "
    "gets a definite accepted/rejected verdict; any diagnostic other than the two permitted "
    "kinds is a violation keyed by the responsible construct.",
    "real nalgebra is absent offline (stand-in crate); rustc 1.95, default lint levels.",
    "DESIGN.md §8 C01")

NOT_YET = {
}


def main():
    checks = []
    for pid in sorted(CHECKS):
        cat, tech, text, note, ref = CHECKS[pid]
        checks.append({
            "property_id": pid,
            "quick_cmd": "./check %s --tier quick" % pid,
            "thorough_cmd": "./check %s --tier thorough" % pid,
            "evidence_file": "evidence/%s.json" % pid,
            "replay_cmd_template": "./check %s --replay {path}" % pid,
            "engine": "monitors",
            "level_claimed": {"category": cat, "text": text, "design_ref": ref},
            "level_note": note,
            "technique": tech,
        })
    props = [json.loads(l)["id"] for l in open(os.path.join(HERE, "properties.jsonl"))]
    na = []
    for pid in props:
        if pid not in CHECKS:
            na.append({"property_id": pid, "reason": NOT_YET.get(
                pid, "runtime monitoring applies (see DESIGN.md §8) but the check is not built "
                     "yet in this revision; not claimed until it is")})
    m = {
        "version": 1,
        "setup_cmd": "./check --setup",
        "hooks": {
            "guard": "cargo feature `verif` of the wgsl_to_wgpu crate (off by default)",
            "enable": "the driver crate generated under /verif/work depends on "
                      "$VERIF_REPO/wgsl_to_wgpu by path with features = [\"verif\"]",
            "baseline_off_cmd": "cd /repo && cargo test --workspace --no-fail-fast --offline",
            "source_commits": HOOK_COMMITS,
            "add_only": True,
        },
        "engines": [
            {"name": "drive", "path": "harness/drive", "serves_properties": sorted(CHECKS),
             "kind_free_text": "Rust binary linking the tree under test (hooks on); runs job "
                               "lists / the mutation campaign and records outcomes, hashes, "
                               "step counters, CPU time"},
            {"name": "monitors", "path": "checkers", "serves_properties": sorted(CHECKS),
             "kind_free_text": "offline checkers over the recorded events (python), one per "
                               "property; write evidence/<id>.json"},
        ],
        "checks": checks,
        "not_applicable": na,
        "notes": "Verdicts are three-valued: exit 0 held / exit 1 VIOLATION / exit 2 "
                 "INCONCLUSIVE. VERIF_SEED seeds every random choice; VERIF_REPO (default /repo) "
                 "selects the tree under test. known_findings.json lists recorded and repaired "
                 "defects.",
    }
    with open(os.path.join(HERE, "MANIFEST.json"), "w") as f:
        json.dump(m, f, indent=1)
    print("wrote MANIFEST.json: %d checks, %d not claimed" % (len(checks), len(na)))


if __name__ == "__main__":
    sys.exit(main())
