"""Campaigns: generate a corpus for a family, run the generator under test on it, write probe
drivers, compile everything against the shadow `wgpu` (fix-point loop), run the shards and
collect the event log.  Checkers read the resulting Campaign object."""
import hashlib
import json
import os
import pickle
import re
import shutil
import subprocess
import time

from vlib import core
from vlib.core import Violation
from gen import families as F
from gen import wtypes as W
from gen.spec import STAGE_BIT

CAMP_VERSION = "3"

SIZES = {
    "quick": {"bind": 160, "struct": 110, "entry": 110, "const": 90, "c09matrix": 6},
    "thorough": {"bind": 1500, "struct": 1200, "entry": 1200, "const": 800, "c09matrix": 60},
}

PROBE_DEPS = """
wgpu = {{ path = "{harness}/shadow-wgpu" }}
# (min_const_generics: what wgpu-core 24 itself enables, i.e. what every wgpu user's bytemuck has)
bytemuck = {{ version = "1", features = ["derive", "min_const_generics"] }}
encase = {{ version = "0.10", features = ["glam"] }}
glam = {{ version = "0.29", features = ["bytemuck", "serde"] }}
serde = {{ version = "1", features = ["derive"] }}
serde_json = "1"
nalgebra = {{ path = "{harness}/nalgebra-standin" }}
"""


def cfg_id(opt):
    return "%s%s%s%s_%s%s%s" % (
        "V" if opt.get("bv") else "v", "H" if opt.get("bh") else "h",
        "E" if opt.get("en") else "e", "S" if opt.get("se") else "s",
        opt.get("mv", "rust")[0], "F" if opt.get("fmt") else "",
        "L" if opt.get("val") else "")


def ident(s):
    """a Rust module-name-safe rendering of a case/cfg id"""
    return re.sub(r"[^A-Za-z0-9_]", "_", s)


class Case:
    def __init__(self, cid, family, spec):
        self.id = cid
        self.family = family
        self.spec = spec
        self.wgsl = spec.wgsl()
        self.truth = spec.truth()
        self.cfgs = []      # list of dict(opt, id, include_path)
        self.gen = {}       # cfg id -> drive result
        self.ref = None     # naga reference verdict


class Campaign:
    def __init__(self, family, tier):
        self.family = family
        self.tier = tier
        self.cases = {}
        self.events = {}    # (case, cfg) -> [event dicts]
        self.rustc = {}     # file key "case/cfg/file" -> {"accepted": bool, "diags": [...]}
        self.stats = {}
        self.dir = None

    def module_ok(self, case, cfg):
        r = self.rustc.get("%s/%s/m.rs" % (case, cfg))
        return bool(r and r["accepted"])

    def probe_state(self, case, cfg, probe):
        return self.rustc.get("%s/%s/%s.rs" % (case, cfg, probe))

    def ev(self, case, cfg, prop=None, op=None):
        out = self.events.get((case, cfg), [])
        if prop:
            out = [e for e in out if e.get("prop") == prop]
        if op:
            out = [e for e in out if e.get("op") == op]
        return out


# ---------------------------------------------------------------------------------------------
# corpus + configurations


def has_rts(spec):
    return any(W.has_runtime_array(sd) for sd in spec.structs.values()
               if sd.name in spec.emitted_structs())


def has_f64_host(spec):
    # (64-bit integers like f64: encase implements ShaderType for none of them)
    return any(W.contains_kind(W.ST(n), spec.structs, ("f64", "i64", "u64"))
               for n in spec.host_structs())


def has_bool_host(spec):
    return any(W.contains_kind(W.ST(n), spec.structs, ("bool",)) for n in spec.host_structs())


def gen_cases(family, tier):
    n = SIZES[tier][family]
    cases = []
    if family == "bind":
        sweep = F.storage_texture_catalog() + F.texture_catalog() * 3
        r0 = core.rng("bind-sweep")
        r0.shuffle(sweep)
        per = max(1, (len(sweep) + n - 1) // n)
        per = min(per, 6)
        for i in range(n):
            r = core.rng("bind", i)
            items = sweep[i * per:(i + 1) * per]
            spec = F.fam_bind(r, i, items)
            for retry in range(8):
                # a runtime-array struct needs encase, encase has no f64: such modules can not
                # compile whatever the tool does (C01 records that); keep them out of this family
                if not (has_f64_host(spec) and has_rts(spec)):
                    break
                r = core.rng("bind", i, "retry", retry)
                spec = F.fam_bind(r, i, items)
            c = Case("b%d" % i, family, spec)
            opt = {"bv": r.random() < 0.5, "bh": False, "en": True, "se": r.random() < 0.3,
                   "mv": r.choice(["rust", "glam", "nalgebra"])}
            if has_f64_host(spec):
                opt["en"] = False
                if has_rts(spec):
                    opt["en"] = True  # documented requirement; module may not compile (encase)
            if r.random() < 0.5:
                opt["val"] = "all"
            c.cfgs = [{"opt": opt}]
            if getattr(spec, "expect_decline", None):
                c.cfgs[0]["expect_decline"] = spec.expect_decline
                c.cfgs[0]["must_decline"] = bool(getattr(spec, "must_decline", False))
            cases.append(c)
        for i in range(3 if tier == "quick" else 12):
            r = core.rng("bind-many-helpers", i)
            c = Case("mh%d" % i, family, F.fam_many_helpers(r, i))
            c.cfgs = [{"opt": {"mv": "rust"}}]
            cases.append(c)
        for i in range(max(10, n // 10)):
            # the push constant as the only module-scope variable, several entry points per
            # stage in interleaved order
            r = core.rng("bind-pc-only", i)
            # (every fifth: a library file - push constant and helpers, no entry point at all)
            c = Case("p%d" % i, family, F.fam_bind(r, i, None,
                                                   pc_only="noentry" if i % 5 == 4 else True))
            c.cfgs = [{"opt": {"mv": "rust", "val": "all"} if i % 2 else {"mv": "glam"}}]
            cases.append(c)
    elif family == "struct":
        nm = SIZES[tier]["c09matrix"]
        directed = F.directed_struct_specs()
        for i in range(n + len(directed)):
            r = core.rng("struct", i)
            if i < len(directed):
                spec = directed[i]
                c = Case("d%d" % i, family, spec)
            else:
                spec = F.fam_struct(r, i)
                c = Case("s%d" % i, family, spec)
            rts, f64, boo = has_rts(spec), has_f64_host(spec), has_bool_host(spec)
            cf = []
            for mv in ("rust", "glam", "nalgebra"):
                if not rts:
                    o = {"bh": True, "bv": r.random() < 0.5, "mv": mv}
                    if r.random() < 0.4:
                        # the validator in front must not change what is generated (C05, C17)
                        o["val"] = "all"
                    if not f64 and not boo and r.random() < 0.35:
                        o["en"] = True  # both derive families at once
                    o.update(getattr(spec, "force_opts", {}))
                    cf.append({"opt": o})
                    cf.append({"opt": {"mv": mv}, "plain": True})
                cf.append({"opt": dict({"bh": False, "en": (not f64) or rts, "mv": mv,
                                        "se": r.random() < 0.3, "bv": r.random() < 0.5},
                                       **getattr(spec, "force_opts", {}))})
            if len(directed) <= i < len(directed) + nm or getattr(spec, "matrix", False):
                # full derive matrix for C09 (16 switch sets x 3 representations)
                for mv in ("rust", "glam", "nalgebra"):
                    for bits in range(16):
                        cf.append({"opt": {"bv": bool(bits & 1), "bh": bool(bits & 2),
                                           "en": bool(bits & 4), "se": bool(bits & 8),
                                           "mv": mv}, "matrix": True})
            seen = set()
            for x in cf:
                k = cfg_id(x["opt"])
                if k not in seen:
                    seen.add(k)
                    c.cfgs.append(x)
            cases.append(c)
    elif family == "entry":
        for i in range(n):
            r = core.rng("entry", i)
            spec = F.fam_entry(r, i)
            c = Case("e%d" % i, family, spec)
            # (validate "all" = Some(ValidationOptions::default()), the form the crate's docs use)
            c.cfgs = [{"opt": {"mv": "rust", "bv": True}}, {"opt": {"mv": "glam", "val": "all"}},
                      {"opt": {"mv": "glam", "bv": True, "en": True}},
                      {"opt": {"mv": "nalgebra", "bv": True}}]
            cases.append(c)
    elif family == "const":
        paths = ["shader.wgsl", "sub/dir/shader.wgsl", "a b/sh ader.wgsl", "ünï/çödé.wgsl",
                 "we\"ird'name.wgsl", "with{brace}.wgsl", "back\\slash.wgsl", "../up.wgsl",
                 "./dot/./x.wgsl", "tab\tname.wgsl", "#hash$.wgsl", "emoji😀.wgsl", "", " ",
                 "C:\\dir\\shader.wgsl", "newline\nin.wgsl"]
        for i in range(n):
            r = core.rng("const", i)
            spec = F.fam_const(r, i)
            c = Case("k%d" % i, family, spec)
            c.cfgs = [{"opt": {}}]
            if i % 3 == 0:
                c.cfgs.append({"opt": {"fmt": True}})
            c.cfgs.append({"opt": {}, "include_path": paths[i % len(paths)]})
            if i % 4 == 0:
                c.cfgs.append({"opt": {"fmt": True},
                               "include_path": paths[(i // 4) % len(paths)]})
            cases.append(c)
    else:
        raise ValueError(family)
    only = os.environ.get("VERIF_ONLY_CASE")
    if only:
        cases = [c for c in cases if c.id == only]
    for c in cases:
        for x in c.cfgs:
            x["id"] = cfg_id(x["opt"]) + ("_inc" if x.get("include_path") is not None else "")
    return cases


# ---------------------------------------------------------------------------------------------
# probe writers


HDR = """#![allow(warnings)]
use super::%(mod)s as m;
use wgpu::verif::{emit, j};
"""


def rs_str(s):
    return json.dumps(s, ensure_ascii=False).replace("\\u007f", "\\u{7f}")


def probe_c02(case, cfg):
    t = case.truth
    L = [HDR % {"mod": cfg["mod"]}, "pub fn run() {", "    let device = wgpu::Device::verif_new();"]
    for g in sorted(t["groups"], key=int):
        L.append('    emit("layout.begin", j!({"group": %s}));' % g)
        L.append("    let _l%s = m::bind_groups::BindGroup%s::get_bind_group_layout(&device);" % (
            g, g))
        L.append('    emit("layout.end", j!({"group": %s}));' % g)
    L.append('    emit("pl.begin", j!({}));')
    L.append("    let _pl = m::create_pipeline_layout(&device);")
    L.append('    emit("pl.end", j!({}));')
    L.append("}")
    return "\n".join(L) + "\n"


def probe_c13(case, cfg):
    t = case.truth
    L = [HDR % {"mod": cfg["mod"]}, "pub fn run() {", "    let device = wgpu::Device::verif_new();"]
    L.append('    emit("pl.begin", j!({}));')
    L.append("    let _pl = m::create_pipeline_layout(&device);")
    L.append('    emit("pl.end", j!({}));')
    if t["push"]:
        L.append('    emit("push.stages", j!({"bits": m::PUSH_CONSTANT_STAGES.bits()}));')
    L.append("}")
    return "\n".join(L) + "\n"


def probe_c04(case, cfg):
    t = case.truth
    groups = sorted(t["groups"], key=int)
    if not groups:
        return None
    L = [HDR % {"mod": cfg["mod"]}, "pub fn run() {", "    let device = wgpu::Device::verif_new();"]
    for g in groups:
        fields = []
        for b, info in sorted(t["groups"][g].items(), key=lambda kv: int(kv[0])):
            var = "r%s_%s" % (g, b)
            ty = {"buffer": "Buffer", "view": "TextureView", "sampler": "Sampler"}[info["kind"]]
            L.append("    let %s = wgpu::%s::verif_new();" % (var, ty))
            L.append('    emit("gave", j!({"group": %s, "field": %s, "kind": "%s", "res_id": '
                     '%s.verif_id()}));' % (g, rs_str(info["name"]), info["kind"], var))
            if info["kind"] == "buffer":
                # a distinct (offset, size) per field: the whole BufferBinding must arrive
                k = (int(g) * 7 + int(b) % 97) % 13
                off = 256 * (k + 1)
                size = "None" if k % 3 == 0 else "std::num::NonZeroU64::new(%d)" % (64 * (k + 1))
                L.append('    emit("gave.range", j!({"group": %s, "field": %s, "offset": %d, '
                         '"size": %s}));' % (g, rs_str(info["name"]), off,
                                             "null" if k % 3 == 0 else str(64 * (k + 1))))
                fields.append("%s: wgpu::BufferBinding { buffer: &%s, offset: %d, size: %s }" % (
                    info["name"], var, off, size))
            else:
                fields.append("%s: &%s" % (info["name"], var))
        L.append('    emit("from_bindings.begin", j!({"group": %s}));' % g)
        L.append("    let bg%s = m::bind_groups::BindGroup%s::from_bindings(&device, "
                 "m::bind_groups::BindGroupLayout%s { %s });" % (g, g, g, ", ".join(fields)))
        L.append('    emit("from_bindings.end", j!({"group": %s}));' % g)
        L.append('    emit("layout.begin", j!({"group": %s}));' % g)
        L.append("    let _l%s = m::bind_groups::BindGroup%s::get_bind_group_layout(&device);" % (
            g, g))
        L.append('    emit("layout.end", j!({"group": %s}));' % g)
    for kind, ty in (("compute", "ComputePass"), ("render", "RenderPass"),
                     ("bundle", "RenderBundleEncoder")):
        for g in groups:
            L.append("    { let mut p = wgpu::%s::verif_new(); emit(\"route.begin\", j!({\"route\": "
                     "\"single\", \"group\": %s, \"pass_kind\": \"%s\", \"pass_id\": p.verif_id()}));"
                     " bg%s.set(&mut p); emit(\"route.end\", j!({})); }" % (ty, g, kind, g))
        args = ", ".join("&bg%s" % g for g in groups)
        L.append("    { let mut p = wgpu::%s::verif_new(); emit(\"route.begin\", j!({\"route\": "
                 "\"set_bind_groups\", \"pass_kind\": \"%s\", \"pass_id\": p.verif_id()})); "
                 "m::set_bind_groups(&mut p, %s); emit(\"route.end\", j!({})); }" % (ty, kind, args))
        fs = ", ".join("bind_group%s: &bg%s" % (g, g) for g in groups)
        L.append("    { let mut p = wgpu::%s::verif_new(); emit(\"route.begin\", j!({\"route\": "
                 "\"BindGroups.set\", \"pass_kind\": \"%s\", \"pass_id\": p.verif_id()})); "
                 "m::bind_groups::BindGroups { %s }.set(&mut p); emit(\"route.end\", j!({})); }" % (
                     ty, kind, fs))
    L.append('    emit("pl.begin", j!({}));')
    L.append("    let _pl = m::create_pipeline_layout(&device);")
    L.append('    emit("pl.end", j!({}));')
    L.append("}")
    return "\n".join(L) + "\n"


def emitted_data_structs(case):
    spec = case.spec
    return [n for n in spec.emitted_structs()]


def probe_c05(case, cfg):
    spec = case.spec
    host = spec.host_structs()
    L = [HDR % {"mod": cfg["mod"]}, "pub fn run() {"]
    n = 0
    for s in spec.emitted_structs():
        sd = spec.structs[s]
        if s not in host or W.has_runtime_array(sd):
            continue
        n += 1
        fs = []
        for mbr in sd.data_members():
            fs.append('j!({"name": %s, "offset": std::mem::offset_of!(m::%s, %s), "size": '
                      'wgpu::verif::field_size(|s: &m::%s| &s.%s)})' % (
                          rs_str(mbr["name"]), s, mbr["name"], s, mbr["name"]))
        L.append('    emit("layout", j!({"struct": %s, "size": std::mem::size_of::<m::%s>(), '
                 '"align": std::mem::align_of::<m::%s>(), "fields": [%s]}));' % (
                     rs_str(s), s, s, ", ".join(fs)))
    L.append("}")
    return "\n".join(L) + "\n" if n else None


def probe_c06(case, cfg):
    spec = case.spec
    mv = cfg["opt"].get("mv", "rust")
    L = [HDR % {"mod": cfg["mod"]}, "pub fn run() {"]
    n = 0
    for s in spec.emitted_structs():
        sd = spec.structs[s]
        for i, mbr in enumerate(sd.data_members()):
            n += 1
            exp = W.rust_type(mbr["ty"], mv)
            rts = mbr["ty"][0] == "a" and mbr["ty"][2] is None
            off = "null" if W.has_runtime_array(sd) else \
                "std::mem::offset_of!(m::%s, %s)" % (s, mbr["name"])
            L.append("    { let (tid, tn) = wgpu::verif::field_type(|s: &m::%s| &s.%s); "
                     "let (eid, en) = wgpu::verif::type_of::<%s>(); "
                     'emit("field", j!({"struct": %s, "field": %s, "i": %d, "type_name": tn, '
                     '"expected": en, "eq": tid == eid, "offset": %s, "rts": %s, "size": '
                     'wgpu::verif::field_size(|s: &m::%s| &s.%s)})); }' % (
                         s, mbr["name"], exp, rs_str(s), rs_str(mbr["name"]), i, off,
                         "true" if rts else "false", s, mbr["name"]))
    L.append("}")
    return "\n".join(L) + "\n" if n else None


TRAITS = [("Debug", "std::fmt::Debug"), ("Clone", "Clone"), ("Copy", "Copy"),
          ("PartialEq", "PartialEq"), ("Pod", "bytemuck::Pod"), ("Zeroable", "bytemuck::Zeroable"),
          ("ShaderType", "encase::ShaderType"), ("Serialize", "serde::Serialize"),
          ("DeserializeOwned", "for<'de> serde::Deserialize<'de>")]


def probe_c09(case, cfg):
    spec = case.spec
    L = [HDR % {"mod": cfg["mod"]}, "pub fn run() {"]
    n = 0
    for s in spec.emitted_structs():
        n += 1
        for tn, path in TRAITS:
            L.append('    emit("trait", j!({"struct": %s, "trait": "%s", "has": '
                     "wgpu::verif::has_trait!(m::%s: %s)}));" % (rs_str(s), tn, s, path))
        L.append('    emit("shape", j!({"struct": %s, "size": std::mem::size_of::<m::%s>(), '
                 '"align": std::mem::align_of::<m::%s>()}));' % (rs_str(s), s, s))
    L.append("}")
    return "\n".join(L) + "\n" if n else None


def probe_c10(case, cfg):
    opt = cfg["opt"]
    if not (opt.get("en") and opt.get("mv") == "glam"):
        return None
    spec = case.spec
    host = spec.host_structs()
    uniform_roots = set()
    for g in spec.globals:
        if g.kind == "buffer" and g.space == "uniform" and g.ty[0] == "st":
            uniform_roots.add(g.ty[1])
    L = [HDR % {"mod": cfg["mod"]}, "pub fn run() {"]
    n = 0
    for s in spec.emitted_structs():
        sd = spec.structs[s]
        if s not in host or not W.glam_representable(W.ST(s), spec.structs):
            continue
        rts = W.has_runtime_array(sd)
        lens = [0, 1, 2, 4] if rts else [1]
        for ln in lens:
            vb = W.ValueBuilder(spec.structs, "glam", "m", runtime_len=ln)
            try:
                expr = vb.build(W.ST(s), 0)
            except Exception:
                continue
            n += 1
            # the checker recomputes the expected (offset, kind, value) list with the same
            # ValueBuilder: nothing big goes through the json! macro
            L.append("    { let v = %s; let mut b = encase::StorageBuffer::new(Vec::<u8>::new()); "
                     "let r = b.write(&v); "
                     'emit("bytes", j!({"struct": %s, "space": "storage", "n_runtime": %d, '
                     '"ok": r.is_ok(), "hex": wgpu::verif::hex(b.as_ref())})); }'
                     % (expr, rs_str(s), ln))
            if s in uniform_roots and not rts:
                L.append("    { let v = %s; let mut b = encase::UniformBuffer::new(Vec::<u8>::new());"
                         " let r = b.write(&v); "
                         'emit("bytes", j!({"struct": %s, "space": "uniform", "n_runtime": %d, '
                         '"ok": r.is_ok(), "hex": wgpu::verif::hex(b.as_ref())})); }'
                         % (expr, rs_str(s), ln))
    L.append("}")
    return "\n".join(L) + "\n" if n else None


def override_values(case, variant):
    """(rust struct literal fields, expected map key->f64 value) for assignment #variant"""
    r = core.rng("ov", case.id, variant)
    fs = []
    exp = {}
    for o in case.spec.overrides:
        ty = o["ty"]
        vals = {"bool": [True, False], "i32": [0, -1, 7, 2147483647, -2147483648],
                "u32": [0, 1, 4294967295, 65536], "f32": [0.0, -1.5, 3.0e10, 1.0e-40, 0.25]}[ty]
        if o.get("array_len"):
            # the override sizes an array: 0 is invalid there, and naga 24 overflows (panics)
            # when it computes the size of huge arrays - keep the lengths ordinary
            vals = [1, 2, 64, 1024]
        v = vals[(variant + r.randrange(len(vals))) % len(vals)]
        lit = {"bool": lambda x: "true" if x else "false", "i32": lambda x: "%di32" % x if x >= 0
               else "(%di32)" % x, "u32": lambda x: "%du32" % x,
               "f32": lambda x: "%sf32" % repr(float(x))}[ty](v)
        key = str(o["id"]) if o.get("id") is not None else o["name"]
        import struct as ps
        if ty == "f32":
            fv = ps.unpack("<f", ps.pack("<f", v))[0]
        elif ty == "bool":
            fv = 1.0 if v else 0.0
        else:
            fv = float(v)
        if o.get("default") is not None:
            if (variant + r.randrange(3)) % 3 == 0:
                fs.append("%s: None" % o["name"])
            else:
                fs.append("%s: Some(%s)" % (o["name"], lit))
                exp[key] = fv
        else:
            fs.append("%s: %s" % (o["name"], lit))
            exp[key] = fv
    return "m::OverrideConstants { %s }" % ", ".join(fs), exp


def f64_hex(v):
    import struct as ps
    return "%016x" % ps.unpack("<Q", ps.pack("<d", v))[0]


def probe_c12(case, cfg):
    spec = case.spec
    if not spec.overrides:
        return None
    L = [HDR % {"mod": cfg["mod"]}, "pub fn run() {"]
    for v in range(8):
        lit, exp = override_values(case, v)
        L.append('    { let oc = %s; emit("map", j!({"variant": %d, "map": '
                 'wgpu::verif_constants_json(&oc.constants()), "expected": %s}));' % (
                     lit, v, json.dumps({k: f64_hex(x) for k, x in exp.items()}, ensure_ascii=False)))
        for e in spec.entries:
            if e.stage == "vertex":
                steps = ", ".join("wgpu::VertexStepMode::Vertex"
                                  for p in e.params if p.get("struct"))
                call = "m::%s_entry(%s%s&oc)" % (e.name, steps, ", " if steps else "")
                L.append('      { let en = %s; emit("entry.map", j!({"variant": %d, "entry": %s, '
                         '"map": wgpu::verif_constants_json(&en.constants)})); }' % (
                             call, v, rs_str(e.name)))
            elif e.stage == "fragment":
                n = case.truth["entries"][[x.name for x in spec.entries].index(e.name)][
                    "frag_targets"]
                L.append('      { let en = m::%s_entry([%s], &oc); emit("entry.map", j!({"variant":'
                         ' %d, "entry": %s, "map": wgpu::verif_constants_json(&en.constants)})); }'
                         % (e.name, ", ".join(["None"] * n), v, rs_str(e.name)))
        L.append("    }")
    L.append("}")
    return "\n".join(L) + "\n"


def entry_const_name(name):
    return "ENTRY_" + name.upper()


def probe_c14(case, cfg):
    spec = case.spec
    t = case.truth
    L = [HDR % {"mod": cfg["mod"]}, "pub fn run() {", "    let device = wgpu::Device::verif_new();"]
    ov = ""
    if spec.overrides:
        lit, _ = override_values(case, 1)
        L.append("    let oc = %s;" % lit)
        ov = "&oc"
    fmts = ["Rgba8Unorm", "Bgra8Unorm", "Rgba16Float", "R32Float", "Rg8Unorm", "Rgba32Float",
            "R8Unorm", "Rg16Float"]
    for e, te in zip(spec.entries, t["entries"]):
        L.append('    emit("entry.const", j!({"entry": %s, "value": m::%s}));' % (
            rs_str(e.name), entry_const_name(e.name)))
        if e.stage == "compute":
            L.append('    emit("pipeline.begin", j!({"entry": %s}));' % rs_str(e.name))
            L.append("    let _p = m::compute::create_%s_pipeline(&device);" % e.name)
            L.append('    emit("pipeline.end", j!({"entry": %s}));' % rs_str(e.name))
            L.append('    emit("workgroup", j!({"entry": %s, "size": m::compute::%s_WORKGROUP_SIZE'
                     '}));' % (rs_str(e.name), e.name.upper()))
        elif e.stage == "vertex":
            steps = []
            k = 0
            for p in e.params:
                if p.get("struct"):
                    steps.append("wgpu::VertexStepMode::%s" % ("Vertex" if k % 2 == 0
                                                                else "Instance"))
                    k += 1
            args = ", ".join(steps + ([ov] if ov else []))
            L.append("    { let en = m::%s_entry(%s);" % (e.name, args))
            L.append('      emit("vertex.entry", j!({"entry": %s, "entry_point": en.entry_point, '
                     '"n_buffers": en.buffers.len(), "steps": en.buffers.iter().map(|b| '
                     'format!("{:?}", b.step_mode)).collect::<Vec<_>>(), "strides": '
                     "en.buffers.iter().map(|b| b.array_stride).collect::<Vec<_>>(), "
                     '"constants": wgpu::verif_constants_json(&en.constants)}));' % rs_str(e.name))
            L.append("      let module = wgpu::ShaderModule::verif_new();")
            L.append("      let vs = m::vertex_state(&module, &en);")
            L.append('      emit("vertex.state", j!({"entry": %s, "module_same": std::ptr::eq('
                     'vs.module, &module), "entry_point": vs.entry_point, "buffers_same": '
                     "vs.buffers.as_ptr() == en.buffers.as_ptr() && vs.buffers.len() == "
                     'en.buffers.len(), "constants_same": std::ptr::eq('
                     "vs.compilation_options.constants, &en.constants), \"zero_init\": "
                     "vs.compilation_options.zero_initialize_workgroup_memory})); }" %
                     rs_str(e.name))
        else:
            n = te["frag_targets"]
            tg = ", ".join("Some(wgpu::ColorTargetState { format: wgpu::TextureFormat::%s, blend: "
                           "None, write_mask: wgpu::ColorWrites::ALL })" % fmts[i % len(fmts)]
                           if i % 3 != 2 else "None" for i in range(n))
            args = "[%s]%s" % (tg, (", " + ov) if ov else "")
            L.append("    { let en = m::%s_entry(%s);" % (e.name, args))
            L.append('      emit("fragment.entry", j!({"entry": %s, "entry_point": en.entry_point, '
                     '"n_targets": en.targets.len(), "targets": en.targets.iter().map(|t| '
                     't.as_ref().map(|c| format!("{:?}", c.format))).collect::<Vec<_>>(), '
                     '"constants": wgpu::verif_constants_json(&en.constants)}));' % rs_str(e.name))
            L.append("      let module = wgpu::ShaderModule::verif_new();")
            L.append("      let fs = m::fragment_state(&module, &en);")
            L.append('      emit("fragment.state", j!({"entry": %s, "module_same": std::ptr::eq('
                     'fs.module, &module), "entry_point": fs.entry_point, "targets_same": '
                     "fs.targets.as_ptr() == en.targets.as_ptr() && fs.targets.len() == "
                     'en.targets.len(), "constants_same": std::ptr::eq('
                     "fs.compilation_options.constants, &en.constants)})); }" % rs_str(e.name))
    L.append("}")
    return "\n".join(L) + "\n"


def vertex_structs(spec):
    out = []
    for e in spec.entries:
        if e.stage == "vertex":
            for p in e.params:
                if p.get("struct") and p["struct"] not in out:
                    out.append(p["struct"])
    return out


def probe_c07(case, cfg):
    spec = case.spec
    vs = vertex_structs(spec)
    if not vs:
        return None
    L = [HDR % {"mod": cfg["mod"]}, "pub fn run() {"]
    attr = ('|a: &wgpu::VertexAttribute| j!({"format": format!("{:?}", a.format), "offset": '
            'a.offset, "location": a.shader_location})')
    L.append("    let aj = %s;" % attr)
    for s in vs:
        sd = spec.structs[s]
        offs = ", ".join('j!({"field": %s, "offset": std::mem::offset_of!(m::%s, %s)})' % (
            rs_str(m["name"]), s, m["name"]) for m in sd.data_members())
        L.append('    emit("struct", j!({"struct": %s, "size": std::mem::size_of::<m::%s>(), '
                 '"attributes": m::%s::VERTEX_ATTRIBUTES.iter().map(aj).collect::<Vec<_>>(), '
                 '"offsets": [%s]}));' % (rs_str(s), s, s, offs))
        for step in ("Vertex", "Instance"):
            L.append("    { let l = m::%s::vertex_buffer_layout(wgpu::VertexStepMode::%s); "
                     'emit("layout", j!({"struct": %s, "step_given": "%s", "step": '
                     'format!("{:?}", l.step_mode), "stride": l.array_stride, "attributes": '
                     "l.attributes.iter().map(aj).collect::<Vec<_>>()})); }" % (
                         s, step, rs_str(s), step))
    ov = ""
    if spec.overrides:
        lit, _ = override_values(case, 2)
        L.append("    let oc = %s;" % lit)
        ov = "&oc"
    for e in spec.entries:
        if e.stage != "vertex":
            continue
        sp = [p["struct"] for p in e.params if p.get("struct")]
        # all assignments of distinct step patterns: position i alone is Instance
        pats = [[("Instance" if j == i else "Vertex") for j in range(len(sp))]
                for i in range(len(sp))] or [[]]
        pats.append(["Instance" if j % 2 else "Vertex" for j in range(len(sp))])
        for pat in pats:
            args = ", ".join(["wgpu::VertexStepMode::%s" % x for x in pat] + ([ov] if ov else []))
            L.append("    { let en = m::%s_entry(%s); "
                     'emit("entry", j!({"entry": %s, "given": %s, "buffers": '
                     'en.buffers.iter().map(|b| j!({"stride": b.array_stride, "step": '
                     'format!("{:?}", b.step_mode), "attributes": '
                     "b.attributes.iter().map(aj).collect::<Vec<_>>()})).collect::<Vec<_>>()})); }"
                     % (e.name, args, rs_str(e.name), json.dumps(pat)))
    L.append("}")
    return "\n".join(L) + "\n"


def probe_c15(case, cfg):
    L = [HDR % {"mod": cfg["mod"]}, "use wgpu::verif::Bits;", "pub fn run() {"]
    n = 0
    for c in case.spec.consts:
        if c["skipped"]:
            continue
        n += 1
        L.append('    emit("const", j!({"name": %s, "type_name": wgpu::verif::type_name_of_val('
                 '&m::%s), "bits": format!("{:016x}", m::%s.bits())}));' % (
                     rs_str(c["name"]), c["name"], c["name"]))
    L.append("}")
    return "\n".join(L) + "\n" if n else None


def probe_c16(case, cfg):
    L = [HDR % {"mod": cfg["mod"]}, "pub fn run() {", "    let device = wgpu::Device::verif_new();"]
    L.append('    emit("source", j!({"hex": wgpu::verif::hex(m::SOURCE.as_bytes())}));')
    L.append('    emit("csm.begin", j!({}));')
    L.append("    let _m = m::create_shader_module(&device);")
    L.append('    emit("csm.end", j!({}));')
    L.append("}")
    return "\n".join(L) + "\n"


PROBES = {
    "bind": [("c02", probe_c02), ("c04", probe_c04), ("c13", probe_c13), ("c16", probe_c16)],
    "struct": [("c05", probe_c05), ("c06", probe_c06), ("c09", probe_c09), ("c10", probe_c10)],
    "entry": [("c07", probe_c07), ("c12", probe_c12), ("c14", probe_c14), ("c06", probe_c06)],
    "const": [("c15", probe_c15), ("c16", probe_c16)],
}

# ---------------------------------------------------------------------------------------------
# building and running shards


def write_workspace(root, shards, real_wgpu=False):
    members = ", ".join('"shard_%d"' % i for i in range(shards))
    deps = PROBE_DEPS.format(harness=core.HARNESS)
    if real_wgpu:
        deps = deps.replace('wgpu = { path = "%s/shadow-wgpu" }' % core.HARNESS,
                            'wgpu = "=24.0.5"')
    core.write_if_changed(os.path.join(root, "Cargo.toml"), """[workspace]
resolver = "2"
members = [%s]

[workspace.dependencies]
%s
[profile.dev]
debug = 0
opt-level = 0
incremental = false
codegen-units = 4
""" % (members, deps))
    for i in range(shards):
        core.write_if_changed(os.path.join(root, "shard_%d" % i, "Cargo.toml"), """[package]
name = "shard_%d"
version = "0.1.0"
edition = "2021"

[dependencies]
wgpu = { workspace = true }
bytemuck = { workspace = true }
encase = { workspace = true }
glam = { workspace = true }
serde = { workspace = true }
serde_json = { workspace = true }
nalgebra = { workspace = true }
""" % i)
    core._cargo_lock_into(root)


def shard_main(mods, with_main=True):
    """mods: list of (modname, path, kind, case, cfg, prop)"""
    L = ["#![allow(warnings)]", "#![recursion_limit = \"512\"]"]
    for (name, path, kind, case, cfg, prop) in mods:
        L.append("#[path = %s]\npub mod %s;" % (json.dumps(path), name))
    if with_main:
        L.append("fn main() {")
        L.append("    std::panic::set_hook(Box::new(|_| {}));")
        L.append("    let out = std::env::args().nth(1).expect(\"out path\");")
        for (name, path, kind, case, cfg, prop) in mods:
            if kind == "probe":
                L.append("    { wgpu::verif::set_ctx(%s, %s, %s); wgpu::verif::emit(\"probe.begin\", "
                         "wgpu::verif::j!({})); let r = std::panic::catch_unwind(|| %s::run()); "
                         "wgpu::verif::emit(\"probe.end\", wgpu::verif::j!({\"panicked\": "
                         "r.is_err()})); }" % (json.dumps(case), json.dumps(cfg),
                                               json.dumps(prop.upper()), name))
        L.append("    let ev = wgpu::verif::take_events();")
        L.append("    std::fs::write(out, ev.join(\"\\n\")).unwrap();")
        L.append("}")
    else:
        L.append("fn main() {}")
    return "\n".join(L) + "\n"


def span_files(span, acc):
    if not span:
        return
    acc.append((span.get("file_name"), span.get("line_start")))
    exp = span.get("expansion")
    if exp:
        span_files(exp.get("span"), acc)
        span_files(exp.get("def_site_span"), acc)


def attribute(diag, casedir, known):
    """the case file (relative path under casedir) an error belongs to, or None"""
    acc = []
    for sp in diag.get("spans", []):
        span_files(sp, acc)
    for ch in diag.get("children", []):
        for sp in ch.get("spans", []):
            span_files(sp, acc)
    # prefer primary spans' innermost case file
    for fn, line in acc:
        if fn and os.path.abspath(fn) in known:
            return os.path.relpath(os.path.abspath(fn), casedir), line
    return None, None


def cargo_fixpoint(root, shard_mods, casedir, target_dir, mode="build", max_rounds=12):
    """Compile; drop files with errors; repeat until clean.  Returns (rustc dict, rounds)."""
    rustc = {}
    live = {i: list(ms) for i, ms in shard_mods.items()}
    for rnd in range(max_rounds):
        for i, ms in live.items():
            core.write_if_changed(os.path.join(root, "shard_%d" % i, "src", "main.rs"),
                                  shard_main(ms, with_main=(mode == "build")))
        cmd = ["cargo", mode, "--offline", "--message-format=json", "--keep-going", "-j",
               str(core.NCPU)]
        p = subprocess.run(cmd, cwd=root, env=core.env(CARGO_TARGET_DIR=target_dir),
                           stdout=subprocess.PIPE, stderr=subprocess.PIPE, text=True)
        bad = {}
        unattributed = []
        known_abs = {os.path.abspath(m[1]) for ms in live.values() for m in ms}
        for line in p.stdout.splitlines():
            if not line.startswith("{"):
                continue
            try:
                msg = json.loads(line)
            except ValueError:
                continue
            if msg.get("reason") != "compiler-message":
                continue
            d = msg["message"]
            if d.get("level") not in ("error", "error: internal compiler error"):
                continue
            if d.get("message", "").startswith("aborting due to") or \
                    d.get("message", "").startswith("could not compile"):
                continue
            if "recursion limit reached" in (d.get("message") or ""):
                raise core.Inconclusive("harness fault: macro recursion limit in generated probe "
                                        "code: %s" % (d.get("rendered") or "")[:400])
            rel, line_no = attribute(d, casedir, known_abs)
            rec = {"code": (d.get("code") or {}).get("code"), "message": d.get("message"),
                   "line": line_no, "round": rnd,
                   "rendered": (d.get("rendered") or "")[:1200]}
            if rel is None:
                unattributed.append(rec)
            else:
                bad.setdefault(rel, []).append(rec)
        core.log("[rustc] %s round %d: %d files with errors, %d unattributed, rc=%d" % (
            mode, rnd, len(bad), len(unattributed), p.returncode))
        if p.returncode == 0 and not bad:
            return rustc, rnd + 1, live
        if not bad:
            raise core.Inconclusive("cargo %s failed without an attributable error:\n%s\n%s" % (
                mode, json.dumps(unattributed[:3])[:2000], p.stderr[-3000:]))
        known = {os.path.relpath(m[1], casedir) for ms in live.values() for m in ms}
        stuck = [rel for rel in bad if rel not in known]
        if stuck and len(stuck) == len(bad):
            raise core.Inconclusive("errors attributed to files that are not live modules: %r %r"
                                    % (stuck[:3], [bad[x][0]["message"] for x in stuck[:3]]))
        # drop failing files (a failing module takes its probes with it)
        for rel, recs in bad.items():
            rustc[rel] = {"accepted": False, "diags": recs}
        for i in list(live):
            keep = []
            dead_mods = set()
            for m in live[i]:
                rel = os.path.relpath(m[1], casedir)
                if rel in bad and m[2] == "module":
                    dead_mods.add((m[3], m[4]))
            for m in live[i]:
                rel = os.path.relpath(m[1], casedir)
                if rel in bad:
                    continue
                if m[2] == "probe" and (m[3], m[4]) in dead_mods:
                    rustc.setdefault(rel, {"accepted": False, "diags": [],
                                           "dropped_with_module": True})
                    continue
                keep.append(m)
            live[i] = keep
    raise core.Inconclusive("compile fix-point did not converge in %d rounds" % max_rounds)


def campaign_dir(family, tier):
    key = "%s-%s-%s-s%d-h%s" % (family, tier, core.tree_key(), core.seed(), core.harness_key())
    if os.environ.get("VERIF_ONLY_CASE"):
        key += "-only-" + ident(os.environ["VERIF_ONLY_CASE"])
    return os.path.join(core.WORK, "camp", key)


def prune_old(keep):
    base = os.path.join(core.WORK, "camp")
    if not os.path.isdir(base):
        return
    ds = sorted((os.path.getmtime(os.path.join(base, d)), d) for d in os.listdir(base))
    for _, d in ds[:-12]:
        if os.path.join(base, d) != keep:
            shutil.rmtree(os.path.join(base, d), ignore_errors=True)


def campaign(family, tier):
    """Build (or load from cache) the campaign of a family for the current tree/seed/tier."""
    d = campaign_dir(family, tier)
    pk = os.path.join(d, "camp.pkl")
    with core.Lock("camp-" + family + "-" + tier):
        if os.path.exists(pk):
            with open(pk, "rb") as f:
                camp = pickle.load(f)
            camp.stats["reused"] = True
            return camp
        t0 = time.time()
        camp = _build_campaign(family, tier, d)
        camp.stats["reused"] = False
        camp.stats["build_s"] = round(time.time() - t0, 1)
        with open(pk, "wb") as f:
            pickle.dump(camp, f)
        prune_old(d)
        return camp


def _build_campaign(family, tier, d):
    shutil.rmtree(d, ignore_errors=True)
    casedir = os.path.join(d, "cases")
    os.makedirs(casedir)
    camp = Campaign(family, tier)
    camp.dir = d
    binp = core.build_drive()
    cases = gen_cases(family, tier)
    jobs = []
    for c in cases:
        cd = os.path.join(casedir, c.id)
        os.makedirs(cd, exist_ok=True)
        with open(os.path.join(cd, "shader.wgsl"), "w", newline="") as f:
            f.write(c.wgsl)
        for x in c.cfgs:
            x["mod"] = "m_%s_%s" % (ident(c.id), ident(x["id"]))
            x["dir"] = os.path.join(cd, x["id"])
            j = {"id": "%s|%s" % (c.id, x["id"]), "source": c.wgsl, "opt": x["opt"],
                 "out": os.path.join(x["dir"], "m.rs"), "inv": True, "canon": True,
                 "canon_nosrc": family == "const", "proj": family == "struct"}
            if x.get("include_path") is not None:
                j["include_path"] = x["include_path"]
            jobs.append(j)
        jobs.append({"id": "%s|ref" % c.id, "source": c.wgsl, "opt": {}, "ref": True,
                     "diag": True})
    res, crashed = core.run_drive_sharded(binp, jobs, "camp-%s-%s" % (family, tier))
    if crashed:
        raise core.Inconclusive("drive crashed while generating %s: %r" % (family, crashed[:1]))
    n_rej = 0
    for c in cases:
        rr = res.get("%s|ref" % c.id)
        c.ref = rr.get("ref") if rr else None
        ok_ref = c.ref and c.ref.get("parse") == "ok" and (
            c.ref.get("valid_all") == "ok" or getattr(c.spec, "parse_only", False))
        if not ok_ref:
            n_rej += 1
            c.frontend_rejected = True
            c.ref_diag = (c.ref or {}).get("parse_diag") or str((c.ref or {}).get("valid_all"))
        else:
            c.frontend_rejected = False
        for x in c.cfgs:
            c.gen[x["id"]] = res.get("%s|%s" % (c.id, x["id"]), {"result": "lost"})
        camp.cases[c.id] = c
    camp.stats["cases_generated"] = len(cases)
    camp.stats["cases_rejected_by_frontend"] = n_rej
    # probes + shard assignment
    mods = []
    for c in cases:
        if c.frontend_rejected:
            continue
        for x in c.cfgs:
            g = c.gen[x["id"]]
            if g.get("result") != "ok":
                continue
            mp = os.path.join(x["dir"], "m.rs")
            if x.get("include_path"):  # ("" names the directory itself: nothing to create)
                # the included file must exist relative to the module for it to compile
                ip = os.path.normpath(os.path.join(x["dir"], x["include_path"]))
                # (a newline in a file name makes cargo's own dep-info file unparsable)
                if ip.startswith(d) and "\0" not in ip and "\n" not in ip and \
                        x["include_path"].strip():
                    try:
                        os.makedirs(os.path.dirname(ip), exist_ok=True)
                        with open(ip, "w", newline="") as f:
                            f.write(c.wgsl)
                        x["include_file_in_place"] = True
                    except OSError:
                        pass
            if x.get("include_path") is not None and not x.get("include_file_in_place"):
                # include_str! of a path that cannot name a file next to the module: the text
                # is still judged through the item inventory (C16), but not compiled
                continue
            group = [(x["mod"], mp, "module", c.id, x["id"], "")]
            for pname, fn in PROBES[family]:
                if x.get("matrix") and pname != "c09":
                    continue
                try:
                    text = fn(c, x)
                except Exception as e:  # generator bug: make it visible, not silent
                    raise core.Inconclusive("probe writer %s failed on %s: %r" % (pname, c.id, e))
                if text is None:
                    continue
                pp = os.path.join(x["dir"], "probe_%s.rs" % pname)
                with open(pp, "w") as f:
                    f.write(text)
                group.append(("p_%s_%s_%s" % (pname, ident(c.id), ident(x["id"])), pp, "probe",
                              c.id, x["id"], pname))
            mods.append(group)
    # many small crates rather than few huge ones: rustc's memory grows with crate size (a
    # shard of ~800 derive-heavy modules needs > 5 GB) and cargo runs NCPU of them at once
    nshards = max(1, min(core.NCPU, len(mods) // 6 or 1))
    if len(mods) > core.NCPU * 100:
        nshards = (len(mods) + 99) // 100
    shard_mods = {i: [] for i in range(nshards)}
    for k, group in enumerate(mods):
        shard_mods[k % nshards] += group
    root = os.path.join(d, "ws")
    write_workspace(root, nshards)
    tdir = os.path.join(core.TARGET, "probes")
    rustc, rounds, live = cargo_fixpoint(root, shard_mods, casedir, tdir)
    camp.stats["compile_rounds"] = rounds
    camp.stats["modules"] = len(mods)
    for i, ms in live.items():
        for m in ms:
            rel = os.path.relpath(m[1], casedir)
            rustc[rel] = {"accepted": True, "diags": []}
    camp.rustc = rustc
    # run
    procs = []
    for i in range(nshards):
        outp = os.path.join(d, "events.%d.jsonl" % i)
        exe = os.path.join(tdir, "debug", "shard_%d" % i)
        # cargo reuses binary names across campaigns: copy so that a later build cannot race
        mine = os.path.join(d, "shard_%d.bin" % i)
        shutil.copy(exe, mine)
        procs.append((subprocess.Popen([mine, outp], env=core.env(), stdout=subprocess.PIPE,
                                       stderr=subprocess.PIPE, text=True), outp, mine))
    for p, outp, mine in procs:
        so, se = p.communicate(timeout=1800)
        if p.returncode != 0:
            raise core.Inconclusive("probe shard failed rc=%s: %s" % (p.returncode, se[-2000:]))
        for e in core.read_jsonl(outp):
            camp.events.setdefault((e.get("case"), e.get("cfg")), []).append(e)
        os.remove(mine)
    for k in camp.events:
        camp.events[k].sort(key=lambda e: e["seq"])
    lost = sum(1 for g in mods if not rustc.get(os.path.relpath(g[0][1], casedir),
                                                {}).get("accepted"))
    camp.stats["modules_rejected_by_rustc"] = lost
    return camp


def setup_typecheck():
    """pre-build the metadata of the real crates (wgpu 24.0.5 etc.) for C01"""
    root = os.path.join(core.WORK, "typecheck-warm")
    write_workspace(root, 1, real_wgpu=True)
    core.write_if_changed(os.path.join(root, "shard_0", "src", "main.rs"), "fn main() {}\n")
    core.sh(["cargo", "check", "--offline", "-j", str(core.NCPU)], cwd=root,
            extra_env={"CARGO_TARGET_DIR": os.path.join(core.TARGET, "typecheck")})


def setup():
    """pre-build the dependency set of the probe workspace"""
    root = os.path.join(core.WORK, "probe-warm")
    write_workspace(root, 1)
    core.write_if_changed(os.path.join(root, "shard_0", "src", "main.rs"),
                          "fn main() { let _ = wgpu::Device::verif_new(); }\n")
    core.sh(["cargo", "build", "--offline", "-j", str(core.NCPU)], cwd=root,
            extra_env={"CARGO_TARGET_DIR": os.path.join(core.TARGET, "probes")})
    setup_typecheck()


# ---------------------------------------------------------------------------------------------
# helpers shared by checkers


def decline_guard(camp, prop_cases):
    """INCONCLUSIVE reasons if the tool declines too much of what it is expected to support"""
    total = 0
    declined = []
    for c in prop_cases:
        for x in c.cfgs:
            if x.get("expect_decline"):
                continue
            total += 1
            g = c.gen.get(x["id"], {})
            if g.get("result") != "ok":
                declined.append("%s/%s: %s" % (c.id, x["id"], g.get("panic") or g.get("err_kind")))
    if total and len(declined) > 0.10 * total:
        return ["tool declined %d of %d expected-supported cases, e.g. %s" % (
            len(declined), total, declined[:3])], len(declined)
    return [], len(declined)


def profile_disagreements(camp, pairs, name):
    """[(case, cfg, dev result, release result)] for the (case, cfg) pairs whose result under a
    release build of the generator (no debug assertions) differs from the campaign's (dev
    build) result: the build profile of the generator is not an input of the generation"""
    binp = core.build_drive("release")
    jobs = []
    for c, x in pairs:
        j = {"id": "%s|%s" % (c.id, x["id"]), "source": c.wgsl, "opt": x["opt"]}
        if x.get("include_path") is not None:
            j["include_path"] = x["include_path"]
        jobs.append(j)
    res, crashed = core.run_drive_sharded(binp, jobs, name)
    if crashed:
        raise core.Inconclusive("release driver crashed: %r" % (crashed[:1],))
    out = []
    for c, x in pairs:
        a = c.gen.get(x["id"], {})
        b = res.get("%s|%s" % (c.id, x["id"]))
        if b is None or a.get("result") == "lost":
            continue
        ka = a.get("text_sha") if a.get("result") == "ok" else (a.get("result"), a.get("err_kind"))
        kb = b.get("text_sha") if b.get("result") == "ok" else (b.get("result"), b.get("err_kind"))
        if ka != kb:
            out.append((c, x, a, b))
    return out, len(jobs)


def refused(c, x):
    """short reason if the tool refused (typed error or panic) a shader that naga parses and
    validates and that is not generated to be refused; None otherwise (ok, lost ...)"""
    g = c.gen.get(x["id"], {})
    if g.get("result") not in ("err", "panic") or c.frontend_rejected or x.get("expect_decline"):
        return None
    if g.get("result") == "err":
        return str(g.get("err_kind"))
    return re.sub(r"[^A-Za-z ]", "", (g.get("panic") or "panic").split(" @ ")[0])[:40].strip().replace(" ", "-") \
        or "panic"


def refusal_violation(c, x, what):
    why = refused(c, x)
    if not why:
        return None
    g = c.gen[x["id"]]
    return Violation("shader-refused", why,
                     "generation fails (%s) for a shader naga accepts, so there is no %s: %s" % (
                         why, what, g.get("display") or g.get("panic") or ""),
                     {"case_id": c.id, "wgsl": c.wgsl, "options": x["opt"],
                      "include_path": x.get("include_path")})


def stage_names(bits):
    return "|".join(n for n, b in STAGE_BIT.items() if bits & b) or "NONE"


def vis_bits(v):
    """wgt::ShaderStages as serialised by serde ("VERTEX | FRAGMENT", "" or an integer)"""
    if isinstance(v, int):
        return v
    bits = 0
    for part in str(v).split("|"):
        part = part.strip()
        if part == "VERTEX":
            bits |= 1
        elif part == "FRAGMENT":
            bits |= 2
        elif part == "COMPUTE":
            bits |= 4
        elif part == "VERTEX_FRAGMENT":
            bits |= 3
    return bits


def bracketed(events, begin, end, key=None):
    """yield (begin event, [events strictly inside]) for begin/end op pairs"""
    cur = None
    inside = []
    for e in events:
        if e["op"] == begin:
            cur = e
            inside = []
        elif e["op"] == end and cur is not None:
            yield cur, inside
            cur = None
        elif cur is not None:
            inside.append(e)


def recorded_layouts(camp, case, cfg, prop="C02"):
    """({group: [layout entries]}, pipeline layout event or None, {group: layout object id})"""
    evs = camp.ev(case, cfg, prop)
    groups = {}
    for b, inside in bracketed(evs, "layout.begin", "layout.end"):
        for e in inside:
            if e["op"] == "dev.create_bind_group_layout":
                groups[int(b["group"])] = e
    pl = None
    pl_layouts = []
    for b, inside in bracketed(evs, "pl.begin", "pl.end"):
        for e in inside:
            if e["op"] == "dev.create_bind_group_layout":
                pl_layouts.append(e)
            elif e["op"] == "dev.create_pipeline_layout":
                pl = e
    return groups, pl, pl_layouts


def usable(camp, fam_prop_probe):
    """iterate (case, cfg) pairs whose module compiled and whose probe ran"""
    for c in camp.cases.values():
        if c.frontend_rejected:
            continue
        for x in c.cfgs:
            if c.gen[x["id"]].get("result") != "ok":
                continue
            if not camp.module_ok(c.id, x["id"]):
                continue
            yield c, x


PERMITTED_MSG = ("derive(Pod) was applied to a type with padding", "does not match WGSL")


def unexpected_rejection(camp, cid, cfgid):
    """diagnostics of a module rustc rejected for a reason other than the two permitted ones
    (the tool's layout assertions, bytemuck's padding check); [] if accepted or permitted"""
    r = camp.rustc.get("%s/%s/m.rs" % (cid, cfgid))
    if not r or r.get("accepted"):
        return []
    bad = [d for d in r.get("diags", []) if not any(p in (d.get("message") or "")
                                                    for p in PERMITTED_MSG)
           and not (d.get("code") == "E0512")]
    return bad
