"""./check <ID> --replay <path>: re-run one recorded case against the current tree.

Campaign-based properties: the case is regenerated deterministically from (family, tier, seed,
case id), a one-case campaign is built and the property's checker runs on it
(REPLAY ... reproduced=True => exit 1).  Other properties: the recorded source/options are run
through the driver again and the observation is compared with the recorded one."""
import json
import os

from vlib import core

CAMPAIGN_PROPS = {"C01", "C02", "C03", "C04", "C05", "C06", "C07", "C08", "C09", "C10", "C12",
                  "C13", "C14", "C15", "C16"}


def prepare(prop, path):
    with open(path) as f:
        r = json.load(f)
    case = r.get("case") or {}
    os.environ["VERIF_SEED"] = str(r.get("seed", 1))
    os.environ["VERIF_TIER"] = r.get("tier", "quick")
    os.environ["VERIF_REPLAY"] = "1"
    print("replaying %s (%s) seed=%s tier=%s" % (r.get("signature"), path, r.get("seed"),
                                                 r.get("tier")))
    if prop in CAMPAIGN_PROPS and case.get("case_id") and \
            case["case_id"][0] in "bsdek":
        os.environ["VERIF_ONLY_CASE"] = case["case_id"]
        return None  # the normal checker runs on the one-case campaign
    src = case.get("source") or case.get("wgsl")
    if src is None:
        print("REPLAY property=%s reproduced=unknown (no source recorded)" % prop)
        return 2
    binp = core.build_drive()
    opt = case.get("options") or case.get("opt") or {}
    if "validate" in opt:
        opt = {"val": opt["validate"]} if opt["validate"] else {}
    jobs = [{"id": "replay", "source": src, "opt": opt, "ref": True, "diag": True}]
    p, res = core.run_drive(binp, jobs, "replay/%s" % prop, timeout=300)
    if not res:
        print("REPLAY property=%s reproduced=True (driver died: %s)" % (prop, p.stderr[-300:]))
        return 1
    o = res[0]
    now = {k: o.get(k) for k in ("result", "err_kind", "err_payload", "panic")}
    then = case.get("observed") or {}
    print("observed now:  %s" % json.dumps(now))
    print("recorded then: %s" % json.dumps(then)[:400])
    same = all(now.get(k) == then.get(k) for k in ("result", "err_kind") if k in then) \
        if then else None
    print("REPLAY property=%s reproduced=%s" % (prop, same))
    return 1 if same else 0
