"""C19 - formatter choice and formatter failure never change the program.

Fault enumeration: every (fault stub x output size x failpoint delay) cell is run in its own
child process whose PATH resolves `rustfmt` to a fault-injecting stub (or to nothing).
Monitor: what the child's create_shader_module* call returned (text hash, canonical-form
hash, panic message), whether it is still alive after the deadline and whether it is blocked.
Oracle: canonical(returned text) == canonical(text returned with rustfmt off), where
canonical = syn::parse_file -> prettyplease::unparse (computed by the driver).
Also: real rustfmt on vs off over the whole corpus.
"""
import glob
import json
import os
import shutil
import subprocess
import time

from vlib import core
from vlib.core import Violation

FAULTS = ["absent", "exit1_after_read", "exit1_immediately", "kill_after_read",
          "kill_before_read", "empty_ok", "exit0_without_reading", "slow_ok",
          "partial_then_kill", "partial_then_exit1", "garbage_exit3", "read_some_then_exit1",
          "sigterm_after_read", "midchar_then_exit1", "midchar_then_kill", "midchar_exit0",
          "echo_then_exit1", "halves_slow_ok"]
DEADLINE_S = 40
HARD_WATCHDOG_S = 150


def big_shader(n):
    """Output far above the 64 KiB pipe buffer: many small structs nested in one uniform."""
    L = []
    for i in range(n):
        L.append("struct T%d { a: vec4<f32>, b: vec4<u32>, c: mat4x4<f32> }" % i)
    L.append("struct All { %s }" % ", ".join("t%d: T%d" % (i, i) for i in range(n)))
    L.append("@group(0) @binding(0) var<uniform> all: All;")
    L.append("@compute @workgroup_size(1) fn main() { _ = all.t0.a; }")
    return "\n".join(L) + "\n"


def proc_cpu_ticks(pid):
    try:
        with open("/proc/%d/stat" % pid) as f:
            parts = f.read().rsplit(")", 1)[1].split()
        return int(parts[11]) + int(parts[12])
    except (OSError, IndexError, ValueError):
        return None


def children_of(pid):
    out = []
    try:
        for t in os.listdir("/proc/%d/task" % pid):
            with open("/proc/%d/task/%s/children" % (pid, t)) as f:
                out += [int(x) for x in f.read().split()]
    except OSError:
        pass
    return out


def main(tier, replay, t0):
    binp = core.build_drive()
    real = shutil.which("rustfmt")
    if not real:
        raise core.Inconclusive("no real rustfmt on PATH to compare with")
    real_dir = os.path.dirname(real)
    work = os.path.join(core.WORK, "c19")
    os.makedirs(work, exist_ok=True)
    shaders = {}
    for p in sorted(glob.glob(os.path.join(core.VERIF, "gen", "corpus", "*.wgsl"))) + \
            core.corpus_fixture_shaders():
        shaders[os.path.basename(p)] = open(p).read()
    small_names = ["pbr.wgsl", "minimal.wgsl", "unicode.wgsl"]
    shaders["big400.wgsl"] = big_shader(400)
    shaders["big1200.wgsl"] = big_shader(1200)
    for k in (500, 620, 740, 860):
        shaders["bigT%d.wgsl" % k] = big_shader(k)
    # multi-byte characters at every alignment relative to any power-of-two chunk size: runs of
    # 3-byte characters with 0/1/2 bytes of padding in front, output above 8 KiB
    for pad in (0, 1, 2):
        shaders["uni3_%d.wgsl" % pad] = "//%s%s\n/* %s */\n%s" % (
            "a" * pad, "\u4e2d\u6587\u5b57" * 3000, "\u00e9\U0001F600" * 2000, big_shader(20))
        small_names.append("uni3_%d.wgsl" % pad)
    size_classes = {"small": small_names, "large": ["big400.wgsl", "big1200.wgsl"]}
    delays = (0, 50)
    if tier == "thorough":
        # every corpus shader goes through every fault; more timings
        small_names = [n for n in sorted(shaders) if not n.startswith("big")]
        shaders["big3000.wgsl"] = big_shader(3000)
        size_classes = {"small": small_names,
                        "large": ["big400.wgsl", "big1200.wgsl", "big3000.wgsl"]}
        delays = (0, 5, 50, 250)

    # reference: formatter off (canonical hash) for every shader
    jobs = [{"id": n, "source": s, "opt": {"en": True}, "canon": True}
            for n, s in shaders.items()]
    p, res = core.run_drive(binp, jobs, "c19/ref")
    ref = {r["id"]: r for r in res}
    if len(ref) != len(jobs):
        raise core.Inconclusive("reference run lost results")
    usable = {n for n, r in ref.items() if r["result"] == "ok" and r.get("canon_sha")}
    if tier == "thorough":
        size_classes["small"] = [n for n in size_classes["small"] if n in usable]
        small_names = size_classes["small"]
    for n in small_names + size_classes["large"]:
        if n not in usable:
            raise core.Inconclusive("reference (formatter off) failed for %s: %r" % (
                n, {k: ref[n].get(k) for k in ("result", "err_kind", "panic")}))
    raw_len = {n: ref[n]["text_len"] for n in usable}

    viol = []
    inconclusive = []
    cells = {}
    samples = []

    def judge(cell, name, r, status):
        rp = {"cell": cell, "shader": name, "status": status,
              "result": {k: r.get(k) for k in ("result", "panic", "err_kind", "text_len",
                                                "canon_sha")} if r else None,
              "expected_canon": ref[name]["canon_sha"], "source": shaders[name][:2000]}
        fault = cell.split("|")[0]
        if status == "hang":
            viol.append(Violation("hang", fault, "generation did not return within %d s and "
                                  "the process is idle (blocked)" % DEADLINE_S, rp))
            return "hang"
        if status != "done" or r is None:
            inconclusive.append("cell %s/%s: %s" % (cell, name, status))
            return status
        if r["result"] == "panic":
            viol.append(Violation("panic", fault, "generator panicked: %s" % r.get("panic"), rp))
            return "panic"
        if r["result"] != "ok":
            viol.append(Violation("not-ok", fault, "generator returned Err(%s)" % r.get(
                "err_kind"), rp))
            return "err"
        if r.get("canon_sha") is None:
            viol.append(Violation("not-rust", fault, "returned text (%d bytes) does not parse as "
                                  "a Rust file (truncated/garbled)" % r.get("text_len", -1), rp))
            return "garbled"
        if r["canon_sha"] != ref[name]["canon_sha"]:
            viol.append(Violation("different-program", fault,
                                  "returned text is a different program than with the "
                                  "formatter off", rp))
            return "different"
        return "same"

    # ---- fault matrix, one child per (fault, size class, delay) running that class's shaders
    runs = []
    for fault in FAULTS:
        for sz, names in size_classes.items():
            for delay in delays:
                cell = "%s|%s|delay%d" % (fault, sz, delay)
                jobs = [{"id": n, "source": shaders[n], "opt": {"fmt": True, "en": True}, "canon": True}
                        for n in names]
                jp = os.path.join(work, cell.replace("|", "_") + ".jobs.jsonl")
                rp = os.path.join(work, cell.replace("|", "_") + ".res.jsonl")
                with open(jp, "w") as f:
                    for j in jobs:
                        f.write(json.dumps(j) + "\n")
                if os.path.exists(rp):
                    os.remove(rp)
                e = core.env(PATH=os.path.join(core.VERIF, "stubs", fault),
                             VERIF_REAL_RUSTFMT=real)
                if delay:
                    e["VERIF_FP_RUSTFMT_SPAWNED_MS"] = str(delay)
                runs.append((cell, names, jp, rp, e))
    # real formatter over the whole corpus (on vs off), in both delays
    for delay in delays:
        cell = "real|corpus|delay%d" % delay
        names = sorted(usable)
        jp = os.path.join(work, "real_corpus_%d.jobs.jsonl" % delay)
        rp = os.path.join(work, "real_corpus_%d.res.jsonl" % delay)
        with open(jp, "w") as f:
            for n in names:
                f.write(json.dumps({"id": n, "source": shaders[n], "opt": {"fmt": True, "en": True},
                                    "canon": True}) + "\n")
        if os.path.exists(rp):
            os.remove(rp)
        e = core.env(PATH=real_dir + ":/usr/bin:/bin")
        if delay:
            e["VERIF_FP_RUSTFMT_SPAWNED_MS"] = str(delay)
        runs.append((cell, names, jp, rp, e))

    # the formatter must not change the program under any derive option set either
    optsets = [{"en": True, "se": True, "bv": True}, {"en": True, "se": True, "mv": "glam"},
               {"en": True, "bv": True, "mv": "nalgebra", "se": True},
               {"se": True, "bv": True, "bh": True}, {"mv": "glam", "bv": True, "en": True}]
    opt_names = [n for n in sorted(usable) if not n.startswith("big")]
    ojobs = []
    for oi, o in enumerate(optsets):
        for n in opt_names:
            ojobs.append({"id": "%s#o%d" % (n, oi), "source": shaders[n], "opt": o, "canon": True})
    p, ores = core.run_drive(binp, ojobs, "c19/optref")
    oref = {r["id"]: r for r in ores if r.get("result") == "ok" and r.get("canon_sha")}
    for k, v in oref.items():
        ref[k] = v
        shaders[k] = shaders[k.split("#")[0]]
    onames = sorted(oref)
    jp = os.path.join(work, "real_options.jobs.jsonl")
    rp = os.path.join(work, "real_options.res.jsonl")
    with open(jp, "w") as f:
        for k in onames:
            oi = int(k.split("#o")[1])
            f.write(json.dumps({"id": k, "source": shaders[k], "opt": dict(optsets[oi], fmt=True),
                                "canon": True}) + "\n")
    if os.path.exists(rp):
        os.remove(rp)
    runs.append(("real|options|delay0", onames, jp, rp, core.env(PATH=real_dir + ":/usr/bin:/bin")))

    # many calls in ONE process while the formatter is missing (anything a call takes and only
    # gives back on success would run out)
    anames = []
    jp = os.path.join(work, "absent_many.jobs.jsonl")
    rp = os.path.join(work, "absent_many.res.jsonl")
    with open(jp, "w") as f:
        for k in range(24):
            n0 = ["minimal.wgsl", "pbr.wgsl", "unicode.wgsl"][k % 3]
            nid = "%s#again%d" % (n0, k)
            ref[nid] = ref[n0]
            shaders[nid] = shaders[n0]
            anames.append(nid)
            f.write(json.dumps({"id": nid, "source": shaders[n0], "opt": {"fmt": True, "en": True},
                                "canon": True}) + "\n")
    if os.path.exists(rp):
        os.remove(rp)
    runs.append(("absent|many_calls|delay0", anames, jp, rp,
                 core.env(PATH=os.path.join(core.VERIF, "stubs", "absent"))))
    # concurrent calls whose texts are all above the pipe buffer (anything the calls share -
    # a scratch file, a static buffer - would hand one caller another caller's module)
    tnames = ["big400.wgsl", "big1200.wgsl"] + ["bigT%d.wgsl" % k for k in (500, 620, 740, 860)]
    for tag, pth in (("real", real_dir + ":/usr/bin:/bin"),
                     ("slow_ok", os.path.join(core.VERIF, "stubs", "slow_ok"))):
        cell = "%s|threads6|delay0" % tag
        jp = os.path.join(work, "threads_%s.jobs.jsonl" % tag)
        rp = os.path.join(work, "threads_%s.res.jsonl" % tag)
        with open(jp, "w") as f:
            for n in tnames:
                f.write(json.dumps({"id": n, "source": shaders[n], "opt": {"fmt": True, "en": True},
                                    "canon": True}) + "\n")
        if os.path.exists(rp):
            os.remove(rp)
        runs.append((cell, tnames, jp, rp, core.env(PATH=pth, VERIF_REAL_RUSTFMT=real),
                     ["--threads", "6"]))
    # history on one thread: a call whose formatter printed a lot and then failed, followed by
    # a call with a healthy formatter and a SHORTER text (and the other way round)
    good = real_dir + ":/usr/bin:/bin"
    stub = lambda s_: os.path.join(core.VERIF, "stubs", s_)  # noqa: E731
    seq = [("big1200.wgsl", stub("echo_then_exit1")), ("minimal.wgsl", good),
           ("big400.wgsl", stub("partial_then_kill")), ("unicode.wgsl", good),
           ("pbr.wgsl", stub("echo_then_exit1")), ("bigT500.wgsl", good),
           ("bigT860.wgsl", stub("garbage_exit3")), ("bigT620.wgsl", stub("empty_ok")),
           ("bigT740.wgsl", good)]
    seq += [("long_members.wgsl", good), ("types_zoo.wgsl", "/nonexistent-dir-for-path"),
            ("compute_mix.wgsl", good), ("subgroups.wgsl", stub("absent"))]
    seq = [(n, p_) for (n, p_) in seq if n in usable or n.startswith("bigT")]
    hnames = [n for n, _ in seq]
    jp = os.path.join(work, "history.jobs.jsonl")
    rp = os.path.join(work, "history.res.jsonl")
    with open(jp, "w") as f:
        for n, p_ in seq:
            f.write(json.dumps({"id": n, "source": shaders[n], "opt": {"fmt": True, "en": True},
                                "canon": True, "set_env": {"PATH": p_}}) + "\n")
    if os.path.exists(rp):
        os.remove(rp)
    runs.append(("history|sequence|delay0", hnames, jp, rp,
                 core.env(PATH=good, VERIF_REAL_RUSTFMT=real)))
    # the same source several times in one process, formatter on: embedded, then two include
    # paths, then embedded again (a result remembered per source would be the wrong program)
    vjobs = []
    for n0 in ("pbr.wgsl", "minimal.wgsl", "unicode.wgsl"):
        for k, ip in enumerate((None, "shaders/a.wgsl", "other dir/b.wgsl", None)):
            j = {"id": "%s#v%d" % (n0, k), "source": shaders[n0], "opt": {"en": True},
                 "canon": True}
            if ip is not None:
                j["include_path"] = ip
            vjobs.append(j)
    p_, vres = core.run_drive(binp, vjobs, "c19/variants-ref")
    for r_ in vres:
        if r_.get("result") == "ok" and r_.get("canon_sha"):
            ref[r_["id"]] = r_
            shaders[r_["id"]] = shaders[r_["id"].split("#")[0]]
    vnames = [j["id"] for j in vjobs if j["id"] in ref]
    jp = os.path.join(work, "variants.jobs.jsonl")
    rp = os.path.join(work, "variants.res.jsonl")
    with open(jp, "w") as f:
        for j in vjobs:
            if j["id"] in ref:
                f.write(json.dumps(dict(j, opt=dict(j["opt"], fmt=True))) + "\n")
    if os.path.exists(rp):
        os.remove(rp)
    runs.append(("real|include_variants|delay0", vnames, jp, rp,
                 core.env(PATH=good, VERIF_REAL_RUSTFMT=real)))

    active = []
    queue = list(runs)
    finished = {}
    while queue or active:
        while queue and len(active) < core.NCPU:
            cell, names, jp, rp, e = queue.pop(0)[:5]
            extra = [x for x in runs if x[0] == cell][0][5:]
            p = subprocess.Popen([binp, "run", jp, rp] + (extra[0] if extra else []), env=e,
                                 stdout=subprocess.DEVNULL,
                                 stderr=subprocess.PIPE, text=True)
            active.append([cell, names, rp, p, time.time(), None])
        time.sleep(0.05)
        still = []
        for a in active:
            cell, names, rp, p, ts, mark = a
            rc = p.poll()
            if rc is not None:
                finished[cell] = ("done" if rc == 0 else "crash rc=%s %s" % (
                    rc, p.stderr.read()[-500:]), names, rp)
                continue
            age = time.time() - ts
            budget = DEADLINE_S * (3 if cell.startswith(("real|", "history|")) or "slow_ok" in cell
                                   or "halves_slow" in cell else 1)
            if age > budget:
                # classify: blocked (idle CPU, incl. its children) => hang; busy => inconclusive
                pids = [p.pid] + children_of(p.pid)
                c1 = sum(x for x in (proc_cpu_ticks(q) for q in pids) if x is not None)
                time.sleep(1.0)
                c2 = sum(x for x in (proc_cpu_ticks(q) for q in pids) if x is not None)
                wchan = ""
                try:
                    wchan = open("/proc/%d/wchan" % p.pid).read()
                except OSError:
                    pass
                for q in children_of(p.pid):
                    try:
                        os.kill(q, 9)
                    except OSError:
                        pass
                p.kill()
                p.wait()
                if c2 - c1 <= 2:
                    finished[cell] = ("hang", names, rp)
                elif age > HARD_WATCHDOG_S:
                    finished[cell] = ("watchdog(busy) wchan=%s" % wchan, names, rp)
                else:
                    finished[cell] = ("watchdog(busy) wchan=%s" % wchan, names, rp)
                continue
            still.append(a)
        active = still

    evals = 0
    distinct = set()
    for cell, (status, names, rp) in sorted(finished.items()):
        got = {r["id"]: r for r in core.read_jsonl(rp)} if os.path.exists(rp) else {}
        outcome = {}
        for n in names:
            r = got.get(n)
            evals += 1
            if r is not None:
                st = "done"
            elif status == "hang":
                st = "hang"
            else:
                st = status if status != "done" else "lost"
            outcome[n] = judge(cell, n, r, st)
            if r is not None:
                distinct.add((cell, n))
            if status == "hang":
                break  # the remaining shaders of this child were never attempted
        cells[cell] = outcome
        if len(samples) < 8 and cell.split("|")[0] in ("kill_before_read", "empty_ok", "absent",
                                                       "read_some_then_exit1"):
            samples.append({"cell": cell, "outcome": outcome})
    expected_cells = len(FAULTS) * 2 * len(delays) + len(delays) + 1 + 5
    if len(cells) != expected_cells:
        inconclusive.append("only %d of %d cells ran" % (len(cells), expected_cells))
    core.finish("C19", tier, "fault_enumeration", t0, viol, {
        "evaluations": evals,
        "distinct_nontrivial": len(distinct),
        "rule": "every cell of {%d formatter faults} x {output below / above the 64 KiB pipe "
                "buffer} x {failpoint delay 0 / 50 ms between spawn and write} runs in its own "
                "child process with PATH pointing at the stub; plus the real formatter over the "
                "whole corpus; non-trivial = a (cell, shader) pair for which the child returned "
                "a result that was compared with the formatter-off program" % len(FAULTS),
        "samples": samples, "exhaustive": True, "cells": cells,
        "faults": FAULTS, "raw_output_bytes": {n: raw_len[n] for n in
                                               small_names + size_classes["large"]},
        "real_rustfmt": real,
    }, assumptions=[
        "canonical form (syn::parse_file -> prettyplease::unparse) identifies 'the same Rust "
        "program token for token'",
        "hang = child alive after the deadline with idle CPU (incl. its children); alive and "
        "busy is inconclusive, never a violation",
        "stubs model the listed faults; a formatter that exits 0 after printing truncated "
        "output is indistinguishable from success and outside the statement"],
        inconclusive=inconclusive)
