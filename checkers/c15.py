"""C15 - module constants are exported with the WGSL type and exact value.

Events (const family): for every expected scalar constant, evaluated in the compiled module:
type_name of the Rust constant and its bit pattern; the inventory of pub const items.
Oracle: type and bits computed by the workload generator when it wrote the declaration
(chosen by bit pattern, printed with round-trip digits), cross-checked against naga's own
constant evaluation each run (a disagreement is a harness fault).
"""
from vlib import core, probes
from vlib.core import Violation

FIXED = ("SOURCE", "PUSH_CONSTANT_STAGES")


def main(tier, replay, t0):
    camp = probes.campaign("const", tier)
    viol = []
    n = 0
    type_cells = {}
    nontrivial = set()
    samples = []
    jobs = [{"id": c.id, "wgsl": c.wgsl, "facts": True} for c in camp.cases.values()
            if not c.frontend_rejected]
    disagree = []
    for r in core.run_oracle("stage", jobs, "c15/facts"):
        if r.get("error"):
            continue
        c = camp.cases[r["id"]]
        for k in c.spec.consts:
            nv = r["facts"]["consts"].get(k["name"])
            if nv is None:
                continue
            if k["skipped"]:
                if nv["ty"] != "non-scalar":
                    disagree.append((c.id, k["name"], "skipped", nv))
            elif nv["ty"] != k["ty"] or int(nv["bits"], 16) != k["bits"]:
                disagree.append((c.id, k["decl"], k["ty"], "%x" % k["bits"], nv))
    if disagree:
        raise core.Inconclusive("constant model and naga disagree (harness fault): %r" %
                                disagree[:4])
    for c in camp.cases.values():
        if c.frontend_rejected:
            continue
        for x in c.cfgs:
            g = c.gen[x["id"]]
            if g.get("result") != "ok":
                v = probes.refusal_violation(c, x, "exported constant")
                if v and any(not k["skipped"] for k in c.spec.consts):
                    viol.append(v)
                continue
            base = {"case_id": c.id, "wgsl": c.wgsl, "options": x["opt"]}
            inv = g.get("inv", {})
            names = [k["name"] for k in inv.get("consts", []) if k["pub"]]
            want = [k for k in c.spec.consts if not k["skipped"]]
            skipped = [k for k in c.spec.consts if k["skipped"]]
            for k in skipped:
                if k["name"] in names:
                    viol.append(Violation("non-scalar-emitted", k["decl"].split("=")[1].strip()[:12],
                                          "non-scalar constant is exported: %s" % k["decl"],
                                          dict(base, exported=[y for y in inv["consts"]
                                                               if y["name"] == k["name"]])))
            for nm in names:
                if nm in FIXED or nm.startswith("ENTRY_"):
                    continue
                if nm not in [k["name"] for k in want] and nm not in [k["name"] for k in skipped]:
                    viol.append(Violation("unexpected-constant", "name", "module exports %s which "
                                          "is not a WGSL constant" % nm, base))
            if x.get("include_path") is not None and not x.get("include_file_in_place"):
                continue  # include_str! of a path that cannot name a file: caller's business
            if not camp.module_ok(c.id, x["id"]):
                d = camp.rustc.get("%s/%s/m.rs" % (c.id, x["id"]), {}).get("diags", [{}])
                viol.append(Violation("module-does-not-compile", d[0].get("code") or "?",
                                      "constants module rejected by rustc: %s" % d[0].get(
                                          "message"), dict(base, rustc=d[:2])))
                continue
            ps = camp.probe_state(c.id, x["id"], "probe_c15")
            if ps is None:
                continue
            if not ps["accepted"]:
                d = ps.get("diags") or [{}]
                viol.append(Violation("constant-missing", d[0].get("code") or "probe",
                                      "a scalar WGSL constant is not exported (or not scalar): %s"
                                      % d[0].get("message"), dict(base, rustc=d[:2])))
                continue
            got = {e["name"]: e for e in camp.ev(c.id, x["id"], "C15", "const")}
            for k in want:
                n += 1
                e = got.get(k["name"])
                rp = dict(base, decl=k["decl"], expected={"ty": k["ty"], "bits": "%x" % k["bits"]},
                          observed=e)
                form = ("zero-value" if "()" in k["decl"] else "ref-or-expr" if any(
                    o["name"] in k["decl"].split("=", 1)[1] for o in want if o is not k)
                    else "literal")
                type_cells[(k["ty"], form)] = type_cells.get((k["ty"], form), 0) + 1
                if form != "literal" or k["bits"] in (0x80000000, 0x7f7fffff, 0xff7fffff, 1):
                    nontrivial.add((k["decl"], x["id"]))
                if e is None:
                    continue
                if e["type_name"] != k["ty"]:
                    viol.append(Violation("constant-type", "%s->%s" % (k["ty"], e["type_name"]),
                                          "%s is exported as %s, WGSL type is %s" % (
                                              k["decl"], e["type_name"], k["ty"]), rp))
                elif int(e["bits"], 16) != k["bits"]:
                    viol.append(Violation("constant-value", "%s:%s" % (k["ty"], form),
                                          "%s: exported bits %s, WGSL value bits %x" % (
                                              k["decl"], e["bits"], k["bits"]), rp))
                if len(samples) < 6 and form != "literal":
                    samples.append({"decl": k["decl"], "type": e["type_name"], "bits": e["bits"]})
    # constants named like items the generator adds itself: whatever else happens to such a
    # module (it has two definitions of one name: C01's recorded finding), the WGSL constant has
    # to be in the output under its own name with its own type and value (item inventory)
    binp = core.build_drive()
    clash = [("SOURCE", "", "cs_main"), ("ENTRY_CS_MAIN", "", "cs_main"),
             ("ENTRY_MAIN", "", "main"),
             ("PUSH_CONSTANT_STAGES", "var<push_constant> pc: vec4<f32>;\n", "cs_main")]
    jobs = []
    for k, (name, extra, entry) in enumerate(clash):
        for j, (lit, ty) in enumerate((("7u", "u32"), ("-3", "i32"), ("0.25", "f32"))):
            src = "const %s = %s;\nconst OTHER_%d = 11u;\n%s@compute @workgroup_size(1)\nfn %s() { }\n" % (
                name, lit, k, extra, entry)
            jobs.append({"id": "clash%d_%d" % (k, j), "source": src, "opt": {"fmt": bool(j % 2)},
                         "inv": True, "_name": name, "_ty": ty})
    p_, res = core.run_drive(binp, [{k_: v for k_, v in j.items() if not k_.startswith("_")}
                                    for j in jobs], "c15/clash")
    by = {r["id"]: r for r in res}
    for j in jobs:
        r = by.get(j["id"])
        if not r or r.get("result") != "ok":
            continue
        n += 1
        mine = [k_ for k_ in r.get("inv", {}).get("consts", [])
                if k_["name"] == j["_name"] and k_["pub"] and k_["ty"].replace(" ", "") == j["_ty"]]
        if not mine:
            viol.append(Violation("constant-missing", "named-like-generated-item",
                                  "the WGSL constant %s (%s) is not exported under its own name "
                                  "with its own type: the module has %s" % (
                                      j["_name"], j["_ty"],
                                      [(k_["name"], k_["ty"]) for k_ in
                                       r.get("inv", {}).get("consts", [])][:6]),
                                  {"wgsl": j["source"], "options": j["opt"]}))
    inconclusive = []
    if n < 50:
        inconclusive.append("only %d constants observed" % n)
    core.finish("C15", tier, "exploration", t0, viol, {
        "evaluations": n, "distinct_nontrivial": len(nontrivial),
        "rule": "const family: 2-9 constants per shader: i32/u32/f32/f64/i64/u64/bool with explicit "
                "and inferred types and suffixes, zero-value constructors, references to and "
                "expressions over earlier constants, negation, -0.0 (literal and as a product), "
                "f32/f64 MIN/MAX/subnormals chosen by bit pattern, vector/matrix/array constants "
                "(must be skipped); x embedded/include x formatter on/off; non-trivial = constant "
                "that is not a plain literal or has an extreme bit pattern",
        "samples": samples, "constants": n,
        "type_cells": {"%s/%s" % k: v for k, v in sorted(type_cells.items())},
    }, assumptions=["negative f64 constants cannot be written in naga 24 (no f64 negation in "
                    "constant evaluation) and are not generated"], inconclusive=inconclusive)
