"""C20 - generation cost stays polynomial in shader size and call depth.

Workload: families of shaders of growing size (value/void call chains, diamonds of width 2-4,
fan-out to shared helpers, calls buried in nested control flow, several entry points over one
deep graph, nested struct towers, wide shaders).  Each case runs in its own child process
under RLIMIT_CPU.
Monitors: (a) hook step counters of the recursive walks (logical cost, load independent),
(b) thread CPU time of the call, (c) death by SIGXCPU.
Oracle: steps <= 8*N^2 with N the size of the naga IR (computed by naga, not by the tool);
CPU <= 2 s for every shader of <= 400 lines; fitted growth exponent of steps against N <= 2.5
per family.
"""
import math
import os
import resource
import subprocess
import json
import time

from vlib import core
from vlib.core import Violation

CPU_LIMIT_S = 10
WALL_WATCHDOG_S = 60
CPU_BOUND_SMALL_S = 2.0


def chain(depth, value, width=1, entries=("compute",)):
    """f0 touches the global; f_k calls f_{k-1} `width` times.  value: value-returning calls
    inside expressions; else call statements."""
    L = ["@group(0) @binding(0) var<storage, read_write> data: array<f32, 4>;",
         "@group(0) @binding(1) var<uniform> aux: vec4<f32>;",
         "@group(0) @binding(2) var tex: texture_2d<f32>;"]
    if value:
        L.append("fn fx0() -> f32 { return data[0] + aux.x + f32(textureDimensions(tex).x); }")
        for k in range(1, depth + 1):
            L.append("fn fx%d() -> f32 { return %s; }" % (
                k, " + ".join(["fx%d()" % (k - 1)] * width)))
        call = "data[1] = fx%d();" % depth
    else:
        L.append("fn fx0() { data[0] = aux.x + f32(textureDimensions(tex).x); }")
        for k in range(1, depth + 1):
            L.append("fn fx%d() { %s }" % (k, " ".join(["fx%d();" % (k - 1)] * width)))
        call = "fx%d();" % depth
    for i, st in enumerate(entries):
        if st == "compute":
            L.append("@compute @workgroup_size(1) fn c%d() { %s }" % (i, call))
        elif st == "fragment":
            L.append("@fragment fn p%d() -> @location(0) vec4<f32> { %s return vec4<f32>(0.0); }"
                     % (i, call))
    return "\n".join(L) + "\n"


def mixed_diamond(depth):
    """each level calls the previous one once as a statement-call and once inside an
    expression, in different control-flow positions."""
    L = ["@group(0) @binding(0) var<storage, read_write> data: array<f32, 4>;",
         "fn fx0() -> f32 { data[0] = data[0] + 1.0; return data[0]; }"]
    for k in range(1, depth + 1):
        p = k - 1
        L.append("fn fx%d() -> f32 {\n  var a = 0.0;\n  if (data[1] > 0.0) { a = fx%d(); } else "
                 "{ loop { a = a + fx%d(); continuing { _ = fx%d(); break if a > 1.0; } } }\n  "
                 "switch (i32(a)) { case 1: { _ = fx%d(); } default: { } }\n  return a;\n}" % (
                     k, p, p, p, p))
    L.append("@compute @workgroup_size(1) fn c0() { data[2] = fx%d(); }" % depth)
    return "\n".join(L) + "\n"


def fanout(helpers, callers):
    L = ["@group(0) @binding(0) var<storage, read_write> data: array<f32, 4>;"]
    for h in range(helpers):
        L.append("fn h%d() -> f32 { return data[%d]; }" % (h, h % 4))
    for c in range(callers):
        L.append("fn g%d() -> f32 { return %s; }" % (
            c, " + ".join("h%d()" % h for h in range(helpers))))
    L.append("@compute @workgroup_size(1) fn c0() { data[0] = %s; }" % " + ".join(
        "g%d()" % c for c in range(callers)))
    return "\n".join(L) + "\n"


def tower(depth, arity, arrays=False):
    L = ["struct S0 { a: vec4<f32> }"]
    for k in range(1, depth + 1):
        ms = []
        for j in range(arity):
            if arrays and j == arity - 1:
                ms.append("m%d: array<S%d, 1>" % (j, k - 1))
            else:
                ms.append("m%d: S%d" % (j, k - 1))
        L.append("struct S%d { %s }" % (k, ", ".join(ms)))
    L.append("@group(0) @binding(0) var<storage, read_write> top: S%d;" % depth)
    L.append("@compute @workgroup_size(1) fn c0() { top.m0%s.a = vec4<f32>(1.0); }" % (
        "".join(".m0" for _ in range(depth - 1)) if depth > 1 else ""))
    if depth == 1:
        L[-1] = "@compute @workgroup_size(1) fn c0() { top.m0.a = vec4<f32>(1.0); }"
    return "\n".join(L) + "\n"


def wide(nbind, nmembers, nfuncs, nentries):
    L = ["struct W { %s }" % ", ".join("m%d: vec4<f32>" % i for i in range(nmembers))]
    for i in range(nbind):
        L.append("@group(%d) @binding(%d) var<uniform> ub%d: W;" % (i % 4, i // 4, i))
    L.append("@group(4) @binding(0) var<storage, read_write> out: array<vec4<f32>, 4>;")
    for f in range(nfuncs):
        L.append("fn w%d() -> vec4<f32> { return ub%d.m%d%s; }" % (
            f, f % nbind, f % nmembers, (" + w%d()" % (f - 1)) if f else ""))
    for e in range(nentries):
        L.append("@compute @workgroup_size(1) fn c%d() { out[%d] = w%d(); }" % (
            e, e % 4, (nfuncs - 1 - e) % nfuncs))
    return "\n".join(L) + "\n"


HDR3 = ["@group(0) @binding(0) var<storage, read_write> data: array<f32, 4>;",
        "@group(0) @binding(1) var<uniform> aux: vec4<f32>;"]


def let_chain(depth, call_arg):
    """each let uses the previous value twice (a DAG through shared handles); optionally the
    last value is a call argument"""
    L = list(HDR3) + ["fn consume(x: f32, y: f32) -> f32 { return x + y + aux.x; }",
                      "@compute @workgroup_size(1) fn c0() {", "  let v0 = data[0] + aux.y;"]
    for k in range(1, depth + 1):
        L.append("  let v%d = v%d * v%d + 0.25;" % (k, k - 1, k - 1))
    if call_arg:
        L.append("  data[1] = consume(v%d, v%d);" % (depth, depth - 1))
    else:
        L.append("  data[1] = v%d;" % depth)
    L.append("}")
    return "\n".join(L) + "\n"


def nested(kind, depth):
    """control flow nested `depth` levels deep with a helper call at the bottom"""
    L = list(HDR3) + ["fn leaf() -> f32 { data[2] = aux.z; return data[2]; }",
                      "@compute @workgroup_size(1) fn c0() {", "  var i: u32 = 1u;",
                      "  var acc: f32 = 0.0;"]
    open_, close = {
        "switch_multi": ("switch (i) { case 1u, 2u, 3u, 4u: {", "} case 9u: { acc = acc + 1.0; } "
                                                                "default: { } }"),
        "switch_single": ("switch (i) { case 1u: {", "} default: { } }"),
        "if_else": ("if (acc < 1e30) { acc = acc + 1.0; } else {", "}"),
        "if": ("if (acc < 1e30) {", "}"),
        "loop": ("loop { if (acc > 1e30) { break; }", " break; }"),
        "loop_continuing": ("loop { if (i > 5u) { break; } continuing { i = i + 1u;", "} }"),
        "block": ("{", "}"),
    }[kind]
    for _ in range(depth):
        L.append("  " + open_)
    L.append("  acc = acc + leaf();")
    for _ in range(depth):
        L.append("  " + close)
    L.append("  data[3] = acc;")
    L.append("}")
    return "\n".join(L) + "\n"


def many_callsites(n, value):
    L = list(HDR3)
    if value:
        L.append("fn h() -> f32 { return data[0] + aux.x; }")
        L.append("fn mid() -> f32 { return %s; }" % " + ".join(["h()"] * n))
        L.append("@compute @workgroup_size(1) fn c0() { data[1] = %s; }" % " + ".join(
            ["mid()"] * min(n, 40)))
    else:
        L.append("fn h() { data[0] = aux.x; }")
        L.append("fn mid() { %s }" % " ".join(["h();"] * n))
        L.append("@compute @workgroup_size(1) fn c0() { %s }" % " ".join(["mid();"] * min(n, 40)))
    return "\n".join(L) + "\n"


def long_body(n):
    L = list(HDR3) + ["@compute @workgroup_size(1) fn c0() {", "  var acc: f32 = 0.0;"]
    for k in range(n):
        L.append("  acc = acc + data[%d] * aux.%s;" % (k % 4, "xyzw"[k % 4]))
    L.append("  data[0] = acc;")
    L.append("}")
    return "\n".join(L) + "\n"


def sparse_group(k):
    """error path: group indices 0 and k (the shader does not grow with k)"""
    return ("@group(0) @binding(0) var<uniform> a: vec4<f32>;\n"
            "@group(%du) @binding(0) var<uniform> b: vec4<f32>;\n"
            "@compute @workgroup_size(1) fn c0() { _ = a.x + b.x; }\n" % k)


def magnitude(kind, k):
    """one numeric literal of the shader grows, the shader does not"""
    if kind == "binding_index":
        return ("@group(0) @binding(%du) var<uniform> a: vec4<f32>;\n"
                "@group(0) @binding(%du) var<storage, read_write> b: array<f32, 4>;\n"
                "@compute @workgroup_size(1) fn c0() { b[0] = a.x; }\n" % (k, max(k - 1, 0)))
    if kind == "array_len":
        return ("struct Big { items: array<vec4<f32>, %d>, tail: f32 }\n"
                "@group(0) @binding(0) var<storage, read_write> b: Big;\n"
                "@compute @workgroup_size(1) fn c0() { b.tail = b.items[0].x; }\n" % k)
    if kind == "frag_location":
        return ("@fragment fn p0() -> @location(%d) vec4<f32> { return vec4<f32>(0.0); }\n" % k)
    if kind == "vertex_location":
        return ("struct VIn { @location(%d) a: vec4<f32> }\n"
                "@vertex fn v0(i: VIn) -> @builtin(position) vec4<f32> { return i.a; }\n" % k)
    if kind == "override_id":
        return ("@id(%d) override scale: f32 = 1.0;\n"
                "@group(0) @binding(0) var<storage, read_write> b: array<f32, 4>;\n"
                "@compute @workgroup_size(1) fn c0() { b[0] = scale; }\n" % k)
    if kind == "member_size_attr":
        return ("struct P { @size(%d) a: f32, b: f32 }\n"
                "@group(0) @binding(0) var<storage, read_write> b: P;\n"
                "@compute @workgroup_size(1) fn c0() { b.b = b.a; }\n" % k)
    if kind == "workgroup_size":
        return ("@group(0) @binding(0) var<storage, read_write> b: array<f32, 4>;\n"
                "@compute @workgroup_size(%d, 1, 1) fn c0() { b[0] = 1.0; }\n" % k)
    raise ValueError(kind)


def override_chain(depth, first_default, in_workgroup_size=True):
    """every override mentions the previous one twice; the last one sizes the workgroup"""
    L = ["override o0: u32%s;" % (" = 4u" if first_default else "")]
    for k in range(1, depth + 1):
        L.append("override o%d: u32 = (o%d + o%d) / 2u;" % (k, k - 1, k - 1))
    L.append("@group(0) @binding(0) var<storage, read_write> data: array<f32, 4>;")
    if in_workgroup_size:
        L.append("@compute @workgroup_size(o%d) fn c0() { data[0] = 1.0; }" % depth)
    else:
        L.append("@compute @workgroup_size(1) fn c0() { data[0] = f32(o%d); }" % depth)
    return "\n".join(L) + "\n"


def const_chain(depth):
    L = ["const k0 = 4u;"]
    for k in range(1, depth + 1):
        L.append("const k%d = (k%d + k%d) / 2u;" % (k, k - 1, k - 1))
    L.append("alias T0 = vec4<f32>;")
    for k in range(1, depth + 1):
        L.append("alias T%d = T%d;" % (k, k - 1))
    L.append("@group(0) @binding(0) var<storage, read_write> data: array<T%d, k%d>;" % (depth,
                                                                                      depth))
    L.append("@compute @workgroup_size(k%d) fn c0() { data[0] = T%d(1.0); }" % (depth, depth))
    return "\n".join(L) + "\n"


def padded_graph(fillers, depth, value, width=2):
    """`fillers` small functions declared (and called once each) BEFORE a diamond: the
    helpers of the diamond get high function indices"""
    L = ["@group(0) @binding(0) var<storage, read_write> data: array<f32, 4>;",
         "@group(0) @binding(1) var<uniform> aux: vec4<f32>;",
         "@group(0) @binding(2) var tex: texture_2d<f32>;"]
    for k in range(fillers):
        L.append("fn pad%d() -> f32 { return aux.%s; }" % (k, "xyzw"[k % 4]))
    body = chain(depth, value, width).splitlines()[3:]
    entry = body[-1]
    L += body[:-1]
    pads = " ".join("data[%d] = pad%d();" % (k % 4, k) for k in range(fillers))
    L.append(entry.replace("{ ", "{ " + pads + " ", 1))
    return "\n".join(L) + "\n"


def lattice(depth, width, value):
    """`width` different helpers per level, each calling EVERY helper of the level below"""
    L = ["@group(0) @binding(0) var<storage, read_write> data: array<f32, 4>;",
         "@group(0) @binding(1) var<uniform> aux: vec4<f32>;"]
    for w in range(width):
        if value:
            L.append("fn l0_%d() -> f32 { return data[%d] + aux.x; }" % (w, w % 4))
        else:
            L.append("fn l0_%d() { data[%d] = aux.x; }" % (w, w % 4))
    for k in range(1, depth + 1):
        for w in range(width):
            if value:
                L.append("fn l%d_%d() -> f32 { return %s; }" % (k, w, " + ".join(
                    "l%d_%d()" % (k - 1, j) for j in range(width))))
            else:
                L.append("fn l%d_%d() { %s }" % (k, w, " ".join(
                    "l%d_%d();" % (k - 1, j) for j in range(width))))
    if value:
        L.append("@compute @workgroup_size(1) fn c0() { data[0] = %s; }" % " + ".join(
            "l%d_%d()" % (depth, j) for j in range(width)))
    else:
        L.append("@compute @workgroup_size(1) fn c0() { %s }" % " ".join(
            "l%d_%d();" % (depth, j) for j in range(width)))
    return "\n".join(L) + "\n"


def pure_diamond(depth, width=2):
    """helpers from which NO module-scope variable is reachable (math/noise code)"""
    L = ["@group(0) @binding(0) var<storage, read_write> data: array<f32, 4>;",
         "fn p0(x: f32) -> f32 { return x * 0.5 + 1.0; }"]
    for k in range(1, depth + 1):
        L.append("fn p%d(x: f32) -> f32 { return %s; }" % (k, " + ".join(
            "p%d(x + %d.0)" % (k - 1, j) for j in range(width))))
    L.append("fn v0() { }")
    for k in range(1, depth + 1):
        L.append("fn v%d() { %s }" % (k, " ".join(["v%d();" % (k - 1)] * width)))
    L.append("@compute @workgroup_size(1) fn c0() { v%d(); data[0] = p%d(1.0); }" % (depth, depth))
    return "\n".join(L) + "\n"


def else_if_chain(arms, with_call):
    L = list(HDR3) + ["fn leaf() -> f32 { data[2] = aux.z; return data[2]; }",
                      "fn side() { data[3] = aux.w; }",
                      "@compute @workgroup_size(1) fn c0() {", "  var acc: f32 = data[0];"]
    chain = []
    for k in range(arms):
        body = "acc = acc + %d.0;" % k
        if with_call and k % 7 == 3:
            body += " side();"
        chain.append("if (acc < %d.5) { %s }" % (k, body))
    L.append("  " + " else ".join(chain) + " else { acc = acc + leaf(); }")
    L.append("  data[1] = acc;")
    L.append("}")
    return "\n".join(L) + "\n"


def ptr_diamond(depth, width=2):
    """helpers taking a pointer parameter, each calling the previous one `width` times"""
    L = list(HDR3) + ["fn q0(p: ptr<function, f32>) { *p = *p + data[0] + aux.x; }"]
    for k in range(1, depth + 1):
        L.append("fn q%d(p: ptr<function, f32>) { %s }" % (k, " ".join(["q%d(p);" % (k - 1)] * width)))
    L.append("@compute @workgroup_size(1) fn c0() { var acc: f32 = 0.0; q%d(&acc); data[1] = acc; }"
             % depth)
    return "\n".join(L) + "\n"


def nested_array_type(depth, elem="vec4<f32>"):
    """a member whose type is an array nested `depth` levels deep (3-line shader)"""
    t = elem
    for _ in range(depth):
        t = "array<%s, 1>" % t
    return ("struct Deep { a: %s }\n@group(0) @binding(0) var<storage, read_write> deep: Deep;\n"
            "@compute @workgroup_size(1) fn c0() { }\n" % t)


FAMILY_OPTS = {"nested_array_glam": {"mv": "glam"}, "nested_array_nalgebra": {"mv": "nalgebra"},
               "nested_array_glam_bytemuck": {"mv": "glam", "bh": True, "bv": True},
               "nested_array_rust_encase": {"en": True}}

ERR_FAMILIES = {"err_sparse_group": "NonConsecutiveBindGroups"}


def families(tier):
    F = []
    for k in [2, 9, 1000, 10 ** 6, 2 ** 31, 4 * 10 ** 9, 2 ** 32 - 1]:
        F.append(("err_sparse_group", k, sparse_group(k)))
    for kind, ks in (("binding_index", [1, 1000, 10 ** 6, 2 ** 32 - 1]),
                     ("array_len", [1, 1000, 10 ** 6, 4 * 10 ** 6]),
                     ("frag_location", [0, 7, 1000, 10 ** 6]),
                     ("vertex_location", [0, 15, 1000, 10 ** 6]),
                     ("override_id", [0, 100, 65535]),
                     ("member_size_attr", [4, 1024, 2 ** 20, 2 ** 28]),
                     ("workgroup_size", [1, 256, 65535, 2 ** 31 - 1])):
        for k in ks:
            F.append(("magnitude_" + kind, k, magnitude(kind, k)))
    for d in [2, 4, 8, 12, 16, 24, 32, 48, 64]:
        F.append(("value_lattice_w2", d, lattice(d, 2, True)))
        F.append(("void_lattice_w2", d, lattice(d, 2, False)))
    for d in [2, 4, 8, 12, 16, 24, 32]:
        F.append(("value_lattice_w3", d, lattice(d, 3, True)))
        F.append(("void_lattice_w4", d, lattice(d, 4, False)))
    for d in [2, 4, 8, 12, 16, 24, 32, 48, 64]:
        F.append(("ptr_param_diamond_w2", d, ptr_diamond(d)))
    for d in [2, 4, 8, 16, 24, 32]:
        F.append(("ptr_param_diamond_w3", d, ptr_diamond(d, 3)))
    for d in [1, 2, 4, 8, 16, 24, 32, 48, 64, 100]:
        F.append(("nested_array_glam", d, nested_array_type(d)))
        F.append(("nested_array_nalgebra", d, nested_array_type(d, "mat3x3<f32>")))
        F.append(("nested_array_glam_bytemuck", d, nested_array_type(d, "vec4<u32>")))
        F.append(("nested_array_rust_encase", d, nested_array_type(d, "vec3<f32>")))
    for d in [2, 4, 8, 12, 16, 24, 32, 48, 64]:
        F.append(("pure_diamond_w2", d, pure_diamond(d)))
    for d in [2, 4, 8, 12, 16, 24, 32]:
        F.append(("pure_diamond_w3", d, pure_diamond(d, 3)))
    for a in [2, 4, 8, 16, 24, 32, 48, 64, 100]:
        F.append(("else_if_chain", a, else_if_chain(a, False)))
        F.append(("else_if_chain_calls", a, else_if_chain(a, True)))
    # hundreds of functions: the walk's bookkeeping must not depend on how many there are
    for fillers in [0, 60, 120, 130, 200, 300]:
        F.append(("padded_value_diamond", fillers, padded_graph(fillers, 32, True)))
        F.append(("padded_void_diamond", fillers, padded_graph(fillers, 32, False)))
    for d in [100, 128, 160, 256]:
        F.append(("long_value_chain", d, chain(d, True)))
        F.append(("long_void_diamond", d, chain(d, False, 2)))
    for d in [2, 4, 8, 16, 24, 32, 48, 64]:
        F.append(("override_chain_required", d, override_chain(d, False)))
        F.append(("override_chain_defaulted", d, override_chain(d, True)))
        F.append(("override_chain_in_body", d, override_chain(d, False, False)))
        F.append(("const_alias_chain", d, const_chain(d)))
    for d in [4, 8, 16, 24, 32, 48]:
        F.append(("let_chain_call_arg", d, let_chain(d, True)))
        F.append(("let_chain_plain", d, let_chain(d, False)))
    for kind in ("switch_multi", "switch_single", "if_else", "if", "loop", "loop_continuing",
                 "block"):
        for d in [2, 4, 8, 12, 16, 20, 24]:
            F.append(("nested_" + kind, d, nested(kind, d)))
    for n in [4, 16, 64, 200]:
        F.append(("many_callsites_value", n, many_callsites(n, True)))
        F.append(("many_callsites_void", n, many_callsites(n, False)))
    for n in [16, 64, 200, 390]:
        F.append(("long_body", n, long_body(n)))
    deep = [4, 8, 12, 16, 20, 24, 32, 48, 64]
    for d in deep:
        F.append(("value_chain", d, chain(d, True)))
        F.append(("void_chain", d, chain(d, False)))
    for w in (2, 3, 4):
        for d in [2, 4, 6, 8, 10, 12, 16, 20, 24, 32] + ([48, 64] if w == 2 else []):
            F.append(("value_diamond_w%d" % w, d, chain(d, True, w)))
            F.append(("void_diamond_w%d" % w, d, chain(d, False, w)))
    for d in [2, 4, 6, 8, 10, 12, 16, 24, 32]:
        F.append(("mixed_controlflow_diamond", d, mixed_diamond(d)))
    for d in [4, 8, 16, 32, 64]:
        F.append(("multi_entry_value_diamond", d,
                  chain(d, True, 2, ("compute", "fragment", "compute", "fragment"))))
    for n in [2, 4, 8, 16, 24, 32]:
        F.append(("fanout", n, fanout(n, n)))
    for d in [2, 4, 6, 8, 10, 12, 14, 16, 18]:
        F.append(("tower_a2", d, tower(d, 2)))
    for d in [2, 4, 6, 8, 10, 12, 14, 16]:
        F.append(("tower_a3", d, tower(d, 3)))
    for d in [2, 4, 6, 8, 10, 12, 14]:
        F.append(("tower_a3_arrays", d, tower(d, 3, True)))
    for d in [2, 3, 4, 5, 6, 7, 8, 9]:
        F.append(("tower_a8", d, tower(d, 8)))
    for n in [8, 32, 64, 128] + ([256, 400] if tier == "thorough" else []):
        F.append(("wide", n, wide(n, min(n, 200), n, min(n, 16))))
    for n in [16, 64, 200] + ([400] if tier == "thorough" else []):
        F.append(("wide_rustfmt", n, wide(n, min(n, 100), min(n, 32), 2)))
    if tier == "thorough":
        r = core.rng("c20")
        for k in range(400):
            d = r.randint(3, 64)
            w = r.randint(1, 4)
            v = r.random() < 0.5
            ents = tuple(r.choice(["compute", "fragment"]) for _ in range(r.randint(1, 5)))
            F.append(("random_graph", d * w, chain(d, v, w, ents)))
    return F


MEM_LIMIT = 6 << 30


def run_case(binp, idx, src, workdir, fmt=False, opt=None):
    jp = os.path.join(workdir, "job%d.jsonl" % idx)
    rp = os.path.join(workdir, "res%d.jsonl" % idx)
    with open(jp, "w") as f:
        f.write(json.dumps({"id": idx, "source": src,
                            "opt": dict(opt or {}, **({"fmt": True} if fmt else {})),
                            "ref": True}) + "\n")
    if os.path.exists(rp):
        os.remove(rp)

    def limits():
        resource.setrlimit(resource.RLIMIT_CPU, (CPU_LIMIT_S, CPU_LIMIT_S + 2))
        # an implementation whose memory multiplies with depth must die here, not take the
        # machine down (the driver reserves a 256 MiB stack, hence the generous ceiling)
        resource.setrlimit(resource.RLIMIT_AS, (MEM_LIMIT, MEM_LIMIT))
    return subprocess.Popen([binp, "run", jp, rp], preexec_fn=limits, env=core.env(),
                            stdout=subprocess.DEVNULL, stderr=subprocess.PIPE, text=True), rp


def proc_tree_ticks(pid):
    from checkers.c19 import proc_cpu_ticks, children_of
    pids = [pid] + children_of(pid)
    return sum(x for x in (proc_cpu_ticks(q) for q in pids) if x is not None)


def kill_tree(pid):
    from checkers.c19 import children_of
    for q in children_of(pid):
        try:
            os.kill(q, 9)
        except OSError:
            pass


def main(tier, replay, t0):
    binp = core.build_drive()
    work = os.path.join(core.WORK, "c20")
    os.makedirs(work, exist_ok=True)
    fam = families(tier)
    viol = []
    inconclusive = []
    results = {}
    # run in waves of NCPU children; the tool call precedes naga's reference work in the child,
    # so a kill by SIGXCPU is attributable only if the reference (pure naga) is cheap: checked
    # by running the reference-only variant when a child dies.
    pending = list(enumerate(fam))
    running = []
    dead_families = set()

    def reap(block):
        nonlocal running
        still = []
        for (i, p, rp, ts) in running:
            rc = p.poll()
            if rc is None:
                if time.time() - ts > WALL_WATCHDOG_S:
                    c1 = proc_tree_ticks(p.pid)
                    time.sleep(1.0)
                    c2 = proc_tree_ticks(p.pid)
                    kill_tree(p.pid)
                    p.kill()
                    p.wait()
                    results[i] = {"status": "hang" if c2 - c1 <= 2 else "watchdog"}
                else:
                    still.append((i, p, rp, ts))
                continue
            if rc == 0 and os.path.exists(rp):
                rs = core.read_jsonl(rp)
                results[i] = {"status": "done", "r": rs[0]} if rs else {"status": "lost"}
            elif rc in (-24, -9, 128 + 24, 137):
                results[i] = {"status": "cpu_limit", "rc": rc}
            elif rc in (-6, 134) and "memory allocation" in (p.stderr.read() or ""):
                results[i] = {"status": "mem_limit", "rc": rc}
            else:
                results[i] = {"status": "crash", "rc": rc, "stderr": p.stderr.read()[-800:]}
        running = still
        if block and running:
            time.sleep(0.02)

    while pending or running:
        while pending and len(running) < core.NCPU:
            i, (name, size, src) = pending.pop(0)
            if name in dead_families:
                results[i] = {"status": "skipped_after_family_violation"}
                continue
            p, rp = run_case(binp, i, src, work, fmt=name.endswith("_rustfmt"),
                             opt=FAMILY_OPTS.get(name))
            running.append((i, p, rp, time.time()))
        reap(True)
        for i, r in list(results.items()):
            if r["status"] in ("cpu_limit", "mem_limit", "hang"):
                dead_families.add(fam[i][0])

    per_family = {}
    evals = 0
    distinct = set()
    samples = []
    max_ratio = 0.0
    max_cpu = 0.0
    for i, (name, size, src) in enumerate(fam):
        r = results.get(i, {"status": "lost"})
        lines = src.count("\n")
        rp = {"family": name, "size_param": size, "lines": lines, "source": src if lines < 120
              else src[:3000] + "\n...", "status": r["status"]}
        if r["status"] == "skipped_after_family_violation":
            continue
        evals += 1
        if r["status"] == "cpu_limit":
            viol.append(Violation("cpu-limit-exceeded", name,
                                  "generation of a %d-line shader (family %s, size %d) was "
                                  "killed after %d s of CPU" % (lines, name, size, CPU_LIMIT_S),
                                  rp))
            continue
        if r["status"] == "mem_limit":
            viol.append(Violation("memory-limit-exceeded", name,
                                  "generation of a %d-line shader (family %s, size %d) ran out "
                                  "of %d GiB of memory" % (lines, name, size, MEM_LIMIT >> 30), rp))
            continue
        if r["status"] == "hang":
            viol.append(Violation("no-return", name,
                                  "generation of a %d-line shader (family %s, size %d) did not "
                                  "return within %d s and the process is idle (blocked)" % (
                                      lines, name, size, WALL_WATCHDOG_S), rp))
            continue
        if r["status"] == "watchdog":
            inconclusive.append("wall-clock watchdog fired for %s/%d" % (name, size))
            continue
        if r["status"] != "done":
            inconclusive.append("child failed for %s/%d: %r" % (name, size, r))
            continue
        res = r["r"]
        if name in ERR_FAMILIES:
            # the shader is refused: the refusal has to come as quickly as any other answer
            cpu = res["cpu_ns"] / 1e9
            rp.update({"cpu_s": cpu, "observed": res.get("err_kind") or res.get("result")})
            if res["result"] != "err" or res.get("err_kind") != ERR_FAMILIES[name]:
                inconclusive.append("family %s/%d: expected %s, got %s" % (
                    name, size, ERR_FAMILIES[name], res.get("err_kind") or res.get("result")))
                continue
            distinct.add(src)
            max_cpu = max(max_cpu, cpu)
            per_family.setdefault(name, []).append((size, 0, 0, cpu, lines))
            if cpu > CPU_BOUND_SMALL_S:
                viol.append(Violation("cpu-over-budget", name,
                                      "%d-line shader took %.2f s CPU (> %.1f s) to be refused"
                                      % (lines, cpu, CPU_BOUND_SMALL_S), rp))
            continue
        if res["result"] != "ok":
            if res.get("ref", {}).get("parse") == "ok" and res["ref"].get("valid_all") == "ok":
                inconclusive.append("family %s/%d declined by the tool: %s" % (
                    name, size, res.get("panic") or res.get("err_kind")))
            else:
                inconclusive.append("family %s/%d rejected by naga (harness fault): %s" % (
                    name, size, str(res.get("ref"))[:200]))
            continue
        ir = res["ref"]["ir"]
        N = ir["functions"] + ir["entry_points"] + ir["statements"] + ir["expressions"] + \
            ir["types"] + ir["globals"] + ir["members"] + ir["blocks"]
        steps = sum(res["steps"])
        cpu = res["cpu_ns"] / 1e9
        distinct.add(src)
        ratio = steps / float(N * N)
        max_ratio = max(max_ratio, ratio)
        max_cpu = max(max_cpu, cpu)
        per_family.setdefault(name, []).append((size, N, steps, cpu, lines))
        rp.update({"ir": ir, "N": N, "steps": res["steps"], "cpu_s": cpu})
        if steps > 8 * N * N:
            viol.append(Violation("steps-superquadratic", name,
                                  "walk steps %d exceed 8*N^2 = %d (N=%d IR items; family %s "
                                  "size %d)" % (steps, 8 * N * N, N, name, size), rp))
        if lines <= 400 and cpu > CPU_BOUND_SMALL_S:
            viol.append(Violation("cpu-over-budget", name,
                                  "%d-line shader took %.2f s CPU (> %.1f s)" % (
                                      lines, cpu, CPU_BOUND_SMALL_S), rp))
        if len(samples) < 6 and size in (8, 16):
            samples.append({"family": name, "size": size, "lines": lines, "N": N,
                            "steps": res["steps"], "cpu_s": round(cpu, 4)})
    exps = {}
    for name, pts in per_family.items():
        pts = sorted(pts)
        big = [(n, s) for (_, n, s, _, _) in pts if s > 0]
        # a log-log slope is meaningless over a narrow range of N (fixed overhead dominates)
        if len(big) >= 4 and max(n for n, _ in big) >= 3 * min(n for n, _ in big):
            xs = [math.log(n) for n, _ in big]
            ys = [math.log(s) for _, s in big]
            mx, my = sum(xs) / len(xs), sum(ys) / len(ys)
            den = sum((x - mx) ** 2 for x in xs)
            if den > 0:
                e = sum((x - mx) * (y - my) for x, y in zip(xs, ys)) / den
                exps[name] = round(e, 3)
                if e > 2.5:
                    viol.append(Violation("growth-exponent", name,
                                          "steps grow like N^%.2f over the family %s" % (e, name),
                                          {"family": name, "points": pts}))
    core.finish("C20", tier, "exploration", t0, viol, {
        "evaluations": evals,
        "distinct_nontrivial": len(distinct),
        "rule": "shader families of growing size, one child process per shader under "
                "RLIMIT_CPU=%ds; non-trivial = distinct accepted shader whose hook counters "
                "were read (all families have call depth or type nesting >= 2)" % CPU_LIMIT_S,
        "samples": samples, "families": sorted(per_family), "growth_exponent_steps_vs_N": exps,
        "max_steps_over_N2": round(max_ratio, 4), "max_cpu_s": round(max_cpu, 3),
        "max_depth": max(s for (n, s, _) in fam if "chain" in n or "diamond" in n),
        "per_family_points(size,N,steps,cpu_s,lines)": {
            k: [(a, b, c, round(d, 4), e) for (a, b, c, d, e) in sorted(v)]
            for k, v in per_family.items()},
    }, assumptions=[
        "the bound constants (8*N^2 steps, 2 s CPU for <=400 lines, exponent <= 2.5) are ours, "
        "chosen far above what a linear walk needs on this machine (dev profile)",
        "N is counted by naga on the parsed module (functions, entry points, statements, "
        "expressions, types, struct members, globals, blocks); the growth exponent is fitted only for families whose N spans a factor >= 3"], inconclusive=inconclusive)
