"""C17 - parse and validation failures come back as errors; validation only gates.

Workload: `drive fuzz` corrupts corpus shaders (truncate, delete/duplicate/swap byte ranges,
tokens and lines, dictionary tokens, injected Unicode/control characters, splices, word swaps
that keep the text parsable but make it invalid, number swaps) and runs, on every mutant:
naga directly (parse; validate under the chosen capability set), the generator with
validation off, the generator with validation on, every diagnostic rendering route.
Oracle (this file): the differential rules R1-R4 below.  Thorough tier additionally runs a
slice of the campaign in an AddressSanitizer build.
"""
import glob
import os
import shutil
import subprocess

from vlib import core
from vlib.core import Violation

DIRECTED = {
    # parsable but invalid modules (validator must reject => ValidationError with validation on)
    "type_mismatch": "@fragment fn f() -> @location(0) vec4<f32> { var x: i32 = 1; x = 2u; "
                     "return vec4<f32>(0.0); }",
    "missing_binding": "var<uniform> u: vec4<f32>;\n@fragment fn f() -> @location(0) vec4<f32> "
                       "{ return u; }",
    "uniform_layout": "struct S { a: f32, b: array<f32, 4> }\n@group(0) @binding(0) "
                      "var<uniform> u: S;\n@compute @workgroup_size(1) fn f() { _ = u.a; }",
    "vertex_no_position": "@vertex fn v() -> @location(0) vec4<f32> { return vec4<f32>(0.0); }",
    "dup_location": "struct O { @location(0) a: vec4<f32>, @location(0) b: vec4<f32> }\n"
                    "@fragment fn f() -> O { var o: O; return o; }",
    "binding_collision": "@group(0) @binding(0) var<uniform> a: vec4<f32>;\n@group(0) "
                         "@binding(0) var<uniform> b: vec4<f32>;\n@compute @workgroup_size(1) "
                         "fn f() { _ = a.x + b.x; }",
    "recursive_fn": "fn a() { a(); }\n@compute @workgroup_size(1) fn f() { a(); }",
    "f64_needs_cap": "@group(0) @binding(0) var<storage, read_write> d: f64;\n@compute "
                     "@workgroup_size(1) fn f() { d = d * 2.0lf; }",
    "push_constant_needs_cap": "var<push_constant> p: vec4<f32>;\n@fragment fn f() -> "
                               "@location(0) vec4<f32> { return p; }",
    "workgroup_size_zero": "@compute @workgroup_size(0) fn f() { }",
    # diagnostics far above any "reasonable" size, multi-byte text at every byte alignment
    "long_line_unknown_ident_a": "@compute @workgroup_size(1) fn f() { let s = " + "\u00e9" * 3000
                                 + "; }",
    "long_line_unknown_ident_b": "@compute @workgroup_size(1) fn f() { let sx = " + "\u4e2d" * 2500
                                 + "; }",
    "long_line_type_error_a": "@fragment fn f() -> @location(0) vec4<f32> { var x: i32 = 1; x = 2u;"
                              " /* " + "\u00e9\U0001F600" * 1500 + " */ return vec4<f32>(0.0); }",
    "long_line_type_error_b": "@fragment fn f() -> @location(0) vec4<f32> { var xy: i32 = 1; xy = "
                              "2u; /* " + "\u4e2d" * 2600 + " */ return vec4<f32>(0.0); }",
    # two defects: a missing capability first (in the validator's order), an unrelated semantic
    # error later - the reported error must be the validator's for the REQUESTED capability set
    "cap_then_store_to_pc": "var<push_constant> consts: vec4<f32>;\n@fragment fn fs_main() -> "
                            "@location(0) vec4<f32> { consts.x = 1.0; return consts; }",
    "cap_then_type_error": "@group(0) @binding(0) var<storage, read_write> d: f64;\n@compute "
                           "@workgroup_size(1) fn f() { var x: i32 = 1; x = 2u; d = 1.0lf; }",
    "cap_then_no_position": "var<push_constant> p: vec4<f32>;\n@vertex fn v() -> @location(0) "
                            "vec4<f32> { return p; }",
    "cap_cube_array_then_bad_coords": "@group(0) @binding(0) var t: texture_cube_array<f32>;\n"
                                      "@group(0) @binding(1) var t2: texture_2d<f32>;\n@fragment "
                                      "fn f() -> @location(0) vec4<f32> { return textureLoad(t2, "
                                      "vec3<i32>(0), 0); }",
    "vertex_index_in_fragment": "@fragment fn f(@builtin(vertex_index) i: u32) -> @location(0) "
                                "vec4<f32> { return vec4<f32>(f32(i)); }",
    "storage_write_in_vertex": "@group(0) @binding(0) var<storage, read_write> s: array<u32>;\n"
                               "@vertex fn v() -> @builtin(position) vec4<f32> { s[0] = 1u; "
                               "return vec4<f32>(0.0); }",
    "bad_image_coords": "@group(0) @binding(0) var t: texture_2d<f32>;\n@fragment fn f() -> "
                        "@location(0) vec4<f32> { return textureLoad(t, vec3<i32>(0), 0); }",
    "invalid_and_nonconsecutive": "@group(1) @binding(0) var<uniform> u: vec4<f32>;\n@vertex fn "
                                  "v() -> @location(0) vec4<f32> { return u; }",
    "invalid_and_duplicate": "@group(0) @binding(0) var<uniform> a: vec4<f32>;\n@group(0) "
                             "@binding(0) var<uniform> b: vec4<f32>;\n@vertex fn v() -> "
                             "@location(0) vec4<f32> { return a + b; }",
    # front end rejects
    "unterminated": "fn f( {",
    "unknown_type": "var<private> x: vec5<f32>;",
    "bom_first": "﻿@compute @workgroup_size(1) fn f() { }",
    "nul_inside": "@compute @workgroup_size(1)\x00 fn f() { }",
    "reserved_word": "fn f() { let enum = 1; }",
    "only_comment_open": "/* never closed",
    "empty": "",
    "just_ws": " \r\n\t",
    "bad_escape_ident": "fn \\u{41}() {}",
    "huge_binding": "@group(0) @binding(4294967296) var<uniform> u: vec4<f32>;",
    "const_overflow": "const X: i32 = 2147483647 + 1;",
    "deep_parens": "const X = " + "(" * 300 + "1" + ")" * 300 + ";",
    # valid
    "valid_plain": "@compute @workgroup_size(1) fn f() { }",
    "valid_ptr_only": "@group(0) @binding(0) var<uniform> u: vec4<f32>;\n@compute "
                      "@workgroup_size(1) fn f() { let p = &u; }",
    "valid_phony": "@group(0) @binding(0) var<uniform> u: vec4<f32>;\n@compute "
                   "@workgroup_size(1) fn f() { _ = u; }",
}


def build_corpus(d):
    shutil.rmtree(d, ignore_errors=True)
    os.makedirs(d)
    n = 0
    for p in sorted(glob.glob(os.path.join(core.VERIF, "gen", "corpus", "*.wgsl"))) + \
            core.corpus_fixture_shaders():
        shutil.copy(p, os.path.join(d, "%02d_%s" % (n, os.path.basename(p))))
        n += 1
    return n


def panic_loc(msg):
    """file:line of a recorded panic message, without machine-specific path prefixes."""
    loc = (msg or "").split(" @ ")[-1]
    for marker in ("/registry/src/", "/wgsl_to_wgpu/src/", "/rustc/"):
        if marker in loc:
            loc = loc.split(marker)[-1]
            if marker == "/registry/src/":
                loc = loc.split("/", 1)[-1]
            elif marker == "/wgsl_to_wgpu/src/":
                loc = "wgsl_to_wgpu/src/" + loc
            break
    return loc


def judge(rec, viol, stats, tag):
    """Apply R1-R4 to one record produced by fuzz.rs::examine."""
    off, on = rec["off"], rec["on"]
    rp = {"how": tag, "i": rec.get("i"), "parent": rec.get("parent"), "muts": rec.get("muts"),
          "caps": rec.get("caps"), "source": rec.get("source"), "off": off, "on": on,
          "ref_parse": rec.get("ref_parse"), "ref_valid": rec.get("ref_valid"),
          "ref_valid_err": rec.get("ref_valid_err")}
    mut = "+".join(sorted(set(rec.get("muts") or ["none"])))
    refp = rec["ref_parse"]
    if refp == "panic" or rec.get("ref_valid") == "panic":
        # naga itself panics on this text: the tool cannot turn that into an error
        loc = panic_loc(rec.get("ref_panic"))
        stats["naga_panics"] += 1
        viol.append(Violation("naga-panics", loc, "naga itself panics on this text: %s" % (
            rec.get("ref_panic")), rp))
        return
    for side, o in (("off", off), ("on", on)):
        for rpn in o.get("render_panics", []) or []:
            viol.append(Violation("render-panic", rpn.split(":")[0] + "/" + side,
                                  "rendering the error panicked: %s" % rpn, rp))
    if refp == "err":
        stats["front_end_rejects"] += 1
        for side, o in (("off", off), ("on", on)):
            if o["r"] == "panic":
                viol.append(Violation("panic-on-unparsable", side + ":" + panic_loc(o.get("panic")),
                                      "front end rejects the text; the generator panicked: %s"
                                      % o.get("panic"), rp))
            elif o["r"] == "ok" or o.get("kind") != "ParseError":
                viol.append(Violation("unparsable-not-ParseError", side,
                                      "front end rejects the text; generator returned %s" % (
                                          o.get("kind") or o["r"]), rp))
            elif rec.get(side + "_diag_eq_ref") is False:
                viol.append(Violation("parse-diagnostic-differs", side,
                                      "ParseError does not render to the front end's "
                                      "diagnostic for this source", rp))
        return
    if rec.get("ref_valid") == "err":
        stats["validator_rejects"] += 1
        if on["r"] == "panic":
            viol.append(Violation("panic-on-invalid", "on:" + panic_loc(on.get("panic")),
                                  "validator rejects the module; with validation on the "
                                  "generator panicked: %s" % on.get("panic"), rp))
        elif on["r"] == "ok" or on.get("kind") != "ValidationError":
            viol.append(Violation("invalid-not-ValidationError", on.get("kind") or on["r"],
                                  "validator rejects the module (%s); with validation on the "
                                  "generator returned %s" % (rec.get("ref_valid_err"),
                                                             on.get("kind") or on["r"]), rp))
        if off.get("kind") in ("ParseError", "ValidationError"):
            viol.append(Violation("spurious-error-validation-off", off.get("kind"),
                                  "text parses and validation is off, generator returned %s" %
                                  off.get("kind"), rp))
        return
    # passes front end and validator: validation must change nothing
    stats["pass_both"] += 1
    if off["r"] == "ok":
        stats["pass_ok"] += 1
    a = (off["r"], off.get("kind"), off.get("sha"), off.get("panic"))
    b = (on["r"], on.get("kind"), on.get("sha"), on.get("panic"))
    if a != b or rec.get("text_eq") is False:
        viol.append(Violation("validation-changes-outcome", "%s->%s" % (
            off.get("kind") or off["r"], on.get("kind") or on["r"]),
            "source passes parse and validation, but outcome differs with validation on: "
            "off=%r on=%r" % (a, b), rp))
    if off.get("kind") in ("ParseError", "ValidationError"):
        viol.append(Violation("spurious-error", off.get("kind"),
                              "naga accepts, generator returned %s" % off.get("kind"), rp))


def run_fuzz(binp, corpus, outdir, count, shards, extra_env=None, timeout=3000):
    os.makedirs(outdir, exist_ok=True)
    procs = []
    for s in range(shards):
        op = os.path.join(outdir, "fuzz.%d.jsonl" % s)
        if os.path.exists(op):
            os.remove(op)
        procs.append((subprocess.Popen(
            [binp, "fuzz", corpus, op, "--seed", str(core.seed()), "--count", str(count),
             "--shard", "%d/%d" % (s, shards)], env=core.env(**(extra_env or {})),
            stdout=subprocess.PIPE, stderr=subprocess.PIPE, text=True), op))
    recs_files = []
    for p, op in procs:
        try:
            so, se = p.communicate(timeout=timeout)
        except subprocess.TimeoutExpired:
            p.kill()
            raise core.Inconclusive("fuzz shard timed out")
        if p.returncode != 0:
            raise core.Inconclusive("fuzz shard exited %d: %s" % (p.returncode, se[-3000:]))
        recs_files.append(op)
    return recs_files


def main(tier, replay, t0):
    binp = core.build_drive()
    work = os.path.join(core.WORK, "c17")
    corpus = os.path.join(work, "corpus")
    ncorpus = build_corpus(corpus)
    viol = []
    stats = dict(front_end_rejects=0, validator_rejects=0, pass_both=0, pass_ok=0, naga_panics=0)
    by_mut = {}
    samples = []

    # directed cases through the generic runner (all capability sets, diagnostics rendered)
    jobs = []
    for name, src in DIRECTED.items():
        for val in (None, "all", "none", "default"):
            jobs.append({"id": "%s|%s" % (name, val), "source": src,
                         "opt": {"val": val} if val else {}, "ref": True, "diag": True})
    p, res = core.run_drive(binp, jobs, "c17/directed")
    if len(res) != len(jobs):
        raise core.Inconclusive("directed run lost results: %s" % p.stderr[-2000:])
    rmap = {r["id"]: r for r in res}
    for name, src in DIRECTED.items():
        offr = rmap["%s|None" % name]
        for val in ("all", "none", "default"):
            onr = rmap["%s|%s" % (name, val)]
            ref = onr["ref"]

            def side(r):
                o = {"r": r["result"], "render_panics": []}
                if r["result"] == "err":
                    k = r["err_kind"]
                    if k == "DuplicateBinding":
                        k += ":%s" % r["err_payload"]
                    o["kind"] = k
                    for route, v in (r.get("diag") or {}).items():
                        if isinstance(v, dict) and "panic" in v:
                            o["render_panics"].append("%s: %s" % (route, v["panic"]))
                    if isinstance(r.get("display"), dict):
                        o["render_panics"].append("Display: %s" % r["display"]["panic"])
                elif r["result"] == "ok":
                    o["sha"] = r["text_sha"]
                else:
                    o["panic"] = r.get("panic")
                return o
            rec = {"i": name, "parent": "directed", "muts": ["directed"], "caps": val,
                   "source": src, "off": side(offr), "on": side(onr), "len": len(src)}
            rec["ref_parse"] = ref["parse"]
            if ref["parse"] == "err":
                for s_, r_ in (("off", offr), ("on", onr)):
                    d = (r_.get("diag") or {}).get("emit_to_string")
                    rec[s_ + "_diag_eq_ref"] = (d == ref.get("parse_diag"))
                    d2 = (r_.get("diag") or {}).get("emit_to_string_with_path")
                    if r_.get("err_kind") == "ParseError" and d2 != ref.get("parse_diag_path"):
                        viol.append(Violation("parse-diagnostic-differs", "with_path/" + s_,
                                              "emit_to_string_with_path differs from the front "
                                              "end's rendering", {"source": src}))
            elif ref["parse"] == "ok":
                v = ref.get("valid_" + val)
                rec["ref_valid"] = "ok" if v == "ok" else ("panic" if "panic" in v else "err")
                if isinstance(v, dict):
                    rec["ref_valid_err"] = (v.get("err") or "")[:120]
                    # the tool's rendering of the validation error must equal naga's
                    d = (onr.get("diag") or {}).get("emit_to_string")
                    if onr.get("err_kind") == "ValidationError" and d != v.get("err"):
                        viol.append(Violation("validation-diagnostic-differs", val,
                                              "ValidationError renders differently from the "
                                              "validator's own diagnostic", {"source": src}))
            else:
                rec["ref_panic"] = ref.get("panic")
            if offr["result"] == "ok" and onr["result"] == "ok":
                rec["text_eq"] = offr["text_sha"] == onr["text_sha"]
            judge(rec, viol, stats, "directed")
    directed_n = len(jobs)

    count = 150000 if tier == "quick" else 8000000
    files = run_fuzz(binp, corpus, work, count, core.NCPU)
    total = 0
    distinct = set()
    outcomes = {}
    for fp in files:
        for rec in core.read_jsonl(fp):
            total += 1
            for m in rec.get("muts") or []:
                by_mut[m] = by_mut.get(m, 0) + 1
            key = "%s/%s/off=%s/on=%s" % (rec.get("ref_parse"), rec.get("ref_valid"),
                                          rec["off"].get("kind") or rec["off"]["r"],
                                          rec["on"].get("kind") or rec["on"]["r"])
            outcomes[key] = outcomes.get(key, 0) + 1
            if rec.get("i", -1) == -1:
                # unmutated corpus member: the framework's own shaders must be valid WGSL
                base = rec.get("parent", "")[3:]
                if os.path.exists(os.path.join(core.VERIF, "gen", "corpus", base)) and \
                        (rec.get("ref_parse") != "ok" or rec.get("ref_valid") != "ok"):
                    raise core.Inconclusive("harness fault: gen/corpus/%s is not valid WGSL "
                                            "(%s/%s)" % (base, rec.get("ref_parse"),
                                                         rec.get("ref_valid_err")))
            if rec.get("muts") and "noop" not in rec["muts"]:
                distinct.add(rec.get("src_sha"))
            judge(rec, viol, stats, "fuzz")
            if len(samples) < 5 and rec.get("source") and rec.get("ref_parse") == "ok" \
                    and rec.get("i", -1) >= 0:
                samples.append({"i": rec["i"], "parent": rec["parent"], "muts": rec["muts"],
                                "caps": rec["caps"], "ref_valid": rec.get("ref_valid"),
                                "off": rec["off"].get("kind") or rec["off"]["r"],
                                "on": rec["on"].get("kind") or rec["on"]["r"],
                                "source_head": rec["source"][:160]})
    asan = None
    memcheck = None
    if tier == "thorough":
        memcheck = run_memcheck(binp, corpus, work)
        for sig, txt in (memcheck.get("reports") or {}).items():
            viol.append(Violation("memcheck-report", sig, txt[:600], {"log": txt[:4000]}))
        bad_rc = [c for c in memcheck.get("exit_codes", []) if c not in ("0", "timeout")]
        if bad_rc and not memcheck.get("reports"):
            viol.append(Violation("memcheck-crash", ",".join(bad_rc), "the campaign died under "
                                  "valgrind with exit codes %s" % bad_rc, {}))
        asan = run_asan(corpus, work)
        if asan["reports"]:
            for sig, txt in asan["reports"].items():
                viol.append(Violation("asan-report", sig, txt[:800], {"log": txt[:4000]}))
    inconclusive = []
    if stats["validator_rejects"] < 50 or stats["pass_both"] < 50 or \
            stats["front_end_rejects"] < 50:
        inconclusive.append("campaign too one-sided: %r" % stats)
    if not samples:
        samples = [{"note": "no parsable mutant kept its text"}]
    core.finish("C17", tier, "exploration", t0, viol, {
        "evaluations": total + directed_n,
        "distinct_nontrivial": len(distinct),
        "rule": "k-th mutant = f(seed,k): 1-4 stacked mutations of a corpus shader (%d shaders: "
                "repository fixtures/examples + /verif/gen/corpus); each mutant is run through "
                "naga directly and through the generator with validation off and on (capability "
                "set all/none/default); non-trivial = distinct mutated text (by hash) that is "
                "not a no-op; plus %d directed invalid/unparsable/valid sources x 4 validation "
                "settings" % (ncorpus, len(DIRECTED)),
        "samples": samples, "mutants": total, "by_class": stats, "by_outcome": outcomes,
        "by_mutator": by_mut, "directed_runs": directed_n,
        "asan": ({k: v for k, v in asan.items() if k != "reports"} if asan else "thorough only"),
        "memcheck": ({k: v for k, v in memcheck.items() if k != "reports"} if memcheck
                     else "thorough only"),
    }, assumptions=[
        "naga::front::wgsl::parse_str and naga::valid::Validator called directly on the same "
        "text are the reference for 'the front end rejects' / 'the validator rejects'",
        "panics of the generator on sources that pass parsing with validation off (documented "
        "unsupported features) are outside this property's statement and only compared "
        "between validation off and on"], inconclusive=inconclusive)


def run_asan(corpus, work):
    """A slice of the campaign under AddressSanitizer (nightly, -Zsanitizer=address)."""
    try:
        binp = core.build_drive("asan")
    except core.Inconclusive as e:
        return {"built": False, "why": str(e)[:300], "reports": {}}
    outdir = os.path.join(work, "asan")
    os.makedirs(outdir, exist_ok=True)
    logbase = os.path.join(outdir, "asan.log")
    for f in glob.glob(logbase + "*"):
        os.remove(f)
    shards = core.NCPU
    procs = []
    for s in range(shards):
        op = os.path.join(outdir, "fuzz.%d.jsonl" % s)
        procs.append(subprocess.Popen(
            [binp, "fuzz", corpus, op, "--seed", str(core.seed() + 1000), "--count", "400000",
             "--shard", "%d/%d" % (s, shards)],
            env=core.env(ASAN_OPTIONS="halt_on_error=1:abort_on_error=0:detect_leaks=0:"
                                      "log_path=%s" % logbase),
            stdout=subprocess.PIPE, stderr=subprocess.PIPE, text=True))
    rcs = []
    for p in procs:
        try:
            p.communicate(timeout=3000)
        except subprocess.TimeoutExpired:
            p.kill()
        rcs.append(p.returncode)
    reports = {}
    for f in glob.glob(logbase + "*"):
        txt = open(f, errors="replace").read()
        if "ERROR: AddressSanitizer" in txt:
            sig = "unknown"
            for line in txt.splitlines():
                if "ERROR: AddressSanitizer" in line:
                    sig = line.split("AddressSanitizer:")[1].split()[0]
                if " in " in line and ("naga" in line or "wgsl_to_wgpu" in line):
                    sig += ":" + line.split(" in ")[1].split()[0][:60]
                    break
            reports[sig] = txt
    return {"built": True, "mutants": 400000, "exit_codes": sorted(set(rcs)),
            "report_files": len(reports), "reports": reports}


def run_memcheck(binp, corpus, work):
    """valgrind memcheck over a slice of the campaign (plain dev build, ~25x): invalid reads /
    writes / uses of uninitialised values in the front end on corrupted input would otherwise
    look like 'no panic'."""
    import shutil as _sh
    if not _sh.which("valgrind"):
        return {"status": "valgrind not found"}
    outdir = os.path.join(work, "memcheck")
    os.makedirs(outdir, exist_ok=True)
    procs = []
    shards = core.NCPU
    for s_ in range(shards):
        logp = os.path.join(outdir, "vg.%d.log" % s_)
        op = os.path.join(outdir, "fuzz.%d.jsonl" % s_)
        procs.append((subprocess.Popen(
            ["valgrind", "--quiet", "--error-exitcode=0", "--log-file=" + logp,
             "--errors-for-leak-kinds=none", "--leak-check=no", binp, "fuzz", corpus, op, "--seed",
             str(core.seed() + 2000), "--count", "20000", "--shard", "%d/%d" % (s_, shards)],
            env=core.env(), stdout=subprocess.PIPE, stderr=subprocess.PIPE, text=True), logp))
    reports = {}
    rcs = []
    for p, logp in procs:
        try:
            p.communicate(timeout=5400)
        except subprocess.TimeoutExpired:
            p.kill()
            rcs.append("timeout")
            continue
        rcs.append(p.returncode)
        if os.path.exists(logp):
            txt = open(logp, errors="replace").read()
            for block in txt.split("\n==")[0:0] or [txt]:
                if "Invalid read" in block or "Invalid write" in block or \
                        "uninitialised" in block or "Invalid free" in block:
                    first = [l for l in block.splitlines() if " at 0x" in l or " by 0x" in l]
                    sig = (first[0].split(": ", 1)[-1][:80] if first else "unknown")
                    reports.setdefault(sig, block[:4000])
    return {"status": "ran", "mutants": 20000, "exit_codes": sorted(set(map(str, rcs))),
            "error_reports": len(reports), "reports": reports}
