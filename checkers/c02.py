"""C02 - bind group layouts pass wgpu's shader-interface validation.

Events: the BindGroupLayoutDescriptors and the PipelineLayoutDescriptor recorded by the shadow
device while *running* the generated get_bind_group_layout / create_pipeline_layout.
Oracles (none of them looks at the tool): (1) real wgpu-core `Interface::check_stage` per entry
point with the recorded layouts provided in pipeline-layout order; (2) wgpu-core's own derived
layout entries (informational agreement count); (3) the entry rules of wgpu-core's
`Device::create_bind_group_layout`, transcribed (model device: all features); (4) replay on the
real wgpu device of this sandbox (calibration of (3) + end-to-end confirmation).
"""
import json
import re

from vlib import core, probes
from vlib.core import Violation


def res_class(g):
    """stable description of a resource declaration for signatures"""
    if g.kind == "buffer":
        return "var<%s%s>" % (g.space, "" if g.space == "uniform" else "," + g.access.replace(
            "_explicit", ""))
    if g.kind == "sampler":
        return g.type_wgsl()
    t = g.tex
    if t["cls"] == "storage":
        return "texture_storage_%s<*,%s>" % (t["dim"], t["access"])
    return g.type_wgsl()


def entry_rules(entry):
    """transcription of the unconditional rejections of create_bind_group_layout (wgpu-core
    24.0.5 device/resource.rs), i.e. those that hold even with every feature enabled"""
    ty = entry["ty"]
    if "Texture" in ty:
        t = ty["Texture"]
        st = t["sample_type"]
        if t["multisampled"] and isinstance(st, dict) and st.get("Float", {}).get("filterable"):
            return "SampleTypeFloatFilterableBindingMultisampled"
        if t["multisampled"] and t["view_dimension"] != "2d":
            return "Non2DMultisampled"
    if "StorageTexture" in ty:
        if ty["StorageTexture"]["view_dimension"] in ("cube", "cube-array"):
            return "StorageTextureCube"
    if entry.get("count") is not None:
        if ty == "AccelerationStructure":
            return "ArrayUnsupported"
    if probes.vis_bits(entry["visibility"]) & ~7:
        return "InvalidVisibility"
    return None


def writable(entry):
    ty = entry["ty"]
    if "Buffer" in ty:
        t = ty["Buffer"]["ty"]
        return isinstance(t, dict) and "Storage" in t and not t["Storage"]["read_only"]
    if "StorageTexture" in ty:
        return ty["StorageTexture"]["access"] != "read-only"
    return False


def main(tier, replay, t0):
    camp = probes.campaign("bind", tier)
    viol = []
    jobs = []
    meta = {}
    lost = 0
    bindings = 0
    kind_cells = {}
    nontrivial = set()
    samples = []
    for c in camp.cases.values():
        if c.frontend_rejected:
            continue
        x = c.cfgs[0]
        if c.gen[x["id"]].get("result") != "ok":
            v = probes.refusal_violation(c, x, "bind group layout")
            if v and c.truth["groups"]:
                viol.append(v)
            continue
        if not camp.module_ok(c.id, x["id"]):
            lost += 1
            continue
        base = {"case_id": c.id, "wgsl": c.wgsl, "options": x["opt"]}
        ps = camp.probe_state(c.id, x["id"], "probe_c02")
        if not ps or not ps["accepted"]:
            d = (ps or {}).get("diags") or [{}]
            viol.append(Violation("layout-surface-missing", d[0].get("code") or "probe_c02",
                                  "layouts of the generated module cannot be obtained: %s" %
                                  d[0].get("message"), dict(base, rustc=d[:2])))
            continue
        groups, pl, pl_layouts = probes.recorded_layouts(camp, c.id, x["id"], "C02")
        if pl is None:
            viol.append(Violation("no-pipeline-layout", "create_pipeline_layout",
                                  "create_pipeline_layout did not create a pipeline layout", base))
            continue
        by_id = {e["id"]: e for e in pl_layouts}
        ordered = [by_id[i]["entries"] if i in by_id else [] for i in pl["bgl_ids"]]
        byname = {(g.group, g.binding): g for g in c.spec.globals if g.is_resource()}
        # (3) entry rules on every recorded entry
        for gi, entries in enumerate(ordered):
            seen = set()
            for en in entries:
                bindings += 1
                g = byname.get((gi, en["binding"]))
                cls = res_class(g) if g else "?"
                kind_cells[cls] = kind_cells.get(cls, 0) + 1
                why = entry_rules(en)
                if en["binding"] in seen:
                    why = "ConflictBinding"
                seen.add(en["binding"])
                if g is not None and writable(en) and \
                        (probes.vis_bits(en["visibility"]) & 1) and \
                        not (c.truth["stage_bits"].get(g.name, 0) & 1):
                    viol.append(Violation("needs-vertex-writable-storage", cls,
                                          "writable storage binding %s is made visible to the "
                                          "vertex stage although no vertex entry point uses it: "
                                          "wgpu rejects the layout unless the optional feature "
                                          "VERTEX_WRITABLE_STORAGE is enabled" % g.decl(),
                                          dict(base, entry=en, group=gi)))
                if why:
                    viol.append(Violation("bgl-entry-rejected", cls,
                                          "wgpu rejects this layout entry when the bind group "
                                          "layout is created (%s): %s declared as %s" % (
                                              why, json.dumps(en["ty"]), g.decl() if g else "?"),
                                          dict(base, entry=en, group=gi)))
        if len(ordered) >= 2 or any(len(e) >= 3 for e in ordered):
            nontrivial.add(c.wgsl)
        jobs.append({"id": c.id, "wgsl": c.wgsl, "groups": ordered, "derive": True,
                     "facts": True})
        meta[c.id] = (c, x, ordered, pl)
        if len(samples) < 3:
            samples.append({"case": c.id, "decls": [g.decl() for g in c.spec.globals
                                                    if g.is_resource()][:6],
                            "recorded_group0": ordered[0][:3] if ordered else []})
    res = core.run_oracle("stage", jobs, "c02/stage")
    stage_calls = 0
    derived_compared = derived_agree = 0
    facts_mismatch = []
    for r in res:
        c, x, ordered, pl = meta[r["id"]]
        base = {"case_id": c.id, "wgsl": c.wgsl, "options": x["opt"]}
        if r.get("error") or r.get("harness_error"):
            raise core.Inconclusive("oracle could not process %s: %s" % (
                r["id"], r.get("error") or r.get("harness_error")))
        byname = {(g.group, g.binding): g for g in c.spec.globals if g.is_resource()}
        for cs in r.get("check_stage", []):
            stage_calls += 1
            if cs["ok"] or cs["kind"] in ("input", "varyings", "workgroup_size", "other"):
                continue
            m = re.search(r"group: (\d+), binding: (\d+)", cs.get("debug", ""))
            g = byname.get((int(m.group(1)), int(m.group(2)))) if m else None
            cls = res_class(g) if g else "?"
            variant = re.sub(r"[^A-Za-z].*", "", cs["debug"].split("}, ")[-1]) if m else cs["kind"]
            viol.append(Violation("check-stage-" + cs["kind"], "%s:%s" % (cls, variant or "?"),
                                  "wgpu-core interface validation fails for entry point %s (%s): "
                                  "%s; declaration: %s" % (cs["entry"], cs["stage"], cs["err"],
                                                           g.decl() if g else "?"),
                                  dict(base, check_stage=cs,
                                       layouts=ordered)))
        # (2) derived entries, informational
        for gi, dl in enumerate(r.get("derived", [])):
            rec = {e["binding"]: e for e in (ordered[gi] if gi < len(ordered) else [])}
            for de in dl:
                derived_compared += 1
                re_ = rec.get(de["binding"])
                if re_ is not None and strip(re_["ty"]) == strip(de["ty"]):
                    derived_agree += 1
        # model cross-check: the generator's by-construction use sets vs naga's analysis
        uses = r.get("facts", {}).get("uses", {})
        reach = c.spec.reach(naga_view=True)
        for e in c.spec.entries:
            nu = set(uses.get("%s:%s" % (e.stage, e.name), []))
            mine = {g for g in reach[e.name]}
            mine_res = {g for g in mine if g in {gl.name for gl in c.spec.globals}}
            if nu != mine_res:
                facts_mismatch.append((c.id, e.name, sorted(nu ^ mine_res)))
    if facts_mismatch:
        raise core.Inconclusive("workload model and naga disagree on global use (harness fault): "
                                "%r" % facts_mismatch[:3])
    # (4) real device
    dev = device_replay(meta, viol)
    inconclusive, ndecl = probes.decline_guard(camp, camp.cases.values())
    if dev.get("calibration_disagreements"):
        inconclusive.append("transcribed layout rules and the real device disagree: %r" %
                            dev["calibration_disagreements"][:3])
    core.finish("C02", tier, "exploration", t0, viol, {
        "evaluations": bindings + stage_calls,
        "distinct_nontrivial": len(nontrivial),
        "rule": "bind family: every sampled/depth/multisampled texture type and the storage "
                "format x access x dimension sweep are spread over the shaders (each used by "
                "entry points of random stages), plus uniform/storage buffers of struct/array/"
                "runtime array/scalar/vector/matrix type, samplers, sparse and huge binding "
                "indices; one evaluation = one recorded layout entry judged by the entry rules "
                "or one check_stage call; non-trivial = shader with >= 2 groups or a group with "
                ">= 3 bindings",
        "samples": samples, "bindings": bindings, "check_stage_calls": stage_calls,
        "kind_cells_hit": len(kind_cells), "kind_cells": kind_cells,
        "derived_compared": derived_compared, "derived_agree": derived_agree,
        "real_device": dev.get("summary"), "cases_lost_to_compile_errors": lost,
        "cases_declined_by_tool": ndecl, "campaign": camp.stats,
    }, assumptions=[
        "float textures are filterable and samplers filtering (the property's own assumption): "
        "derived-vs-recorded comparison ignores filterable/min_binding_size/visibility",
        "model device for the entry rules: every feature enabled, so only unconditional "
        "rejections count; device limits (max_bindings_per_bind_group etc.) are not attributed "
        "to the tool"], inconclusive=inconclusive)


def strip(ty):
    ty = json.loads(json.dumps(ty))
    if isinstance(ty, dict):
        if "Texture" in ty and isinstance(ty["Texture"].get("sample_type"), dict):
            ty["Texture"]["sample_type"] = "Float"
        if "Buffer" in ty:
            ty["Buffer"]["min_binding_size"] = None
        if "Sampler" in ty and ty["Sampler"] in ("filtering", "non-filtering"):
            ty["Sampler"] = "filtering"
    return ty


def attributable(err):
    """device errors that say something about the descriptor itself: not limits of this adapter
    (max_bindings_per_bind_group is 65535 on llvmpipe) and not cascades of an earlier failure"""
    e = err.lower()
    return not ("internal error" in e or "greater than the maximum" in e or "label is invalid" in e or "limit" in e
                or "too many" in e or "exceeds" in e)


def device_replay(meta, viol):
    jobs = []
    for cid, (c, x, ordered, pl) in meta.items():
        if len(c.wgsl) > 12000 or c.wgsl.count("else if") > 40 or len(c.spec.funcs) > 20:
            continue  # the software rasteriser's shader compiler is not what is being judged
        jobs.append({"id": cid, "wgsl": c.wgsl, "groups": ordered,
                     "push_constant_ranges": pl["push_constant_ranges"],
                     "compute": [{"entry": e.name, "constants": {}} for e in c.spec.entries
                                 if e.stage == "compute"]})
    try:
        res = core.run_oracle("device", jobs, "c02/device", timeout=420, partial_ok=True)
    except core.Inconclusive as e:
        return {"summary": {"status": "unavailable", "why": str(e)[:200]}}
    if not res or res[0].get("adapter") is None:
        return {"summary": {"status": "unavailable"}}
    head = res[0]
    summ = {"status": "used", "adapter": head.get("adapter"), "calls": 0, "ok": 0,
            "not_attributable": 0, "attributable_errors": 0}
    disagreements = []
    for r in res[1:]:
        c, x, ordered, pl = meta[r["id"]]
        for call in r["calls"]:
            summ["calls"] += 1
            if call["ok"]:
                summ["ok"] += 1
                if call["call"] == "create_bind_group_layout":
                    gi = call["what"]["group"]
                    why = [entry_rules(e) for e in ordered[gi]]
                    if any(why):
                        disagreements.append((r["id"], gi, "device accepted", why))
                continue
            if not call.get("attributable") or not attributable(call["err"]):
                summ["not_attributable"] += 1
                continue
            summ["attributable_errors"] += 1
            if call["call"] == "create_bind_group_layout":
                gi = call["what"]["group"]
                if not any(entry_rules(e) for e in ordered[gi]) and \
                        len({e["binding"] for e in ordered[gi]}) == len(ordered[gi]):
                    disagreements.append((r["id"], gi, "device rejected", call["err"][:200]))
            # attributable device errors on pipeline creation are reported through the
            # device-free oracles; keep them visible in the evidence
            summ.setdefault("attributable_samples", [])
            if len(summ["attributable_samples"]) < 5:
                summ["attributable_samples"].append({"case": r["id"], "call": call["call"],
                                                     "err": call["err"][:240]})
    return {"summary": summ, "calibration_disagreements": disagreements}
