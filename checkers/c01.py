"""C01 - the generated module is complete Rust that compiles against wgpu 24.

Events: rustc's verdict (JSON diagnostics attributed to files through macro expansion chains;
fix-point loop so that every module gets a definite accepted/rejected verdict) on every distinct
text the generator returned for the four workload families, the repository's own shaders and a
set of hostile-identifier shaders, compiled against the REAL wgpu 24.0.5, bytemuck, encase,
serde, glam (nalgebra: stand-in crate).
Oracle: rustc; a rejection is permitted only if every diagnostic is one of the tool's own
layout assertions or bytemuck's Pod padding check.
"""
import glob
import os
import re
import shutil

from vlib import core, probes
from vlib.core import Violation
from gen import families as F

PERMITTED = (re.compile(r"(offset of \S+ does not match WGSL|size of \S+ does not match WGSL)"),
             re.compile(r"derive\(Pod\) was applied to a type with padding"))


def permitted(d, case=None):
    msg = d.get("message") or ""
    m = re.search(r"(?:offset of (\S+?)\.\S+|size of (\S+)) does not match WGSL", msg)
    if m and case is not None and hasattr(case.spec, "host_structs"):
        # the deliberate rejection exists for host-shareable structs only: an assertion on any
        # other struct is the tool inventing a check nobody asked for
        name = m.group(1) or m.group(2)
        if name in case.spec.structs and name not in case.spec.host_structs():
            return None
    if d.get("code") == "E0512" and "transmute" in msg:
        return "pod_padding"
    if PERMITTED[0].search(msg):
        return "assert"
    if PERMITTED[1].search(msg):
        return "pod_padding"
    return None


def normalise(msg):
    m = re.sub(r"`[^`]*::([A-Za-z0-9_]+)`", r"`\1`", msg or "")
    m = re.sub(r"m_[a-z0-9]+_[A-Za-z_]+::", "", m)
    m = re.sub(r"`[A-Za-z_][A-Za-z0-9_]*_\d+`", "`_`", m)
    m = re.sub(r"\d+", "N", m)
    return m[:70]


KNOWN_SHAPES = [
    (re.compile(r"`(f64|(glam::)?D(Vec|Mat)\d): \S*Shader(Size|Type)`|`f64: .*encase|"
                r"D(Vec|Mat)\d: Shader(Size|Type)"), "encase-f64"),
    (re.compile(r"`bool: Shader(Size|Type)`"), "encase-bool"),
    (re.compile(r"`bool: (bytemuck::)?Pod`|`bool: Pod`"), "bytemuck-bool"),
    (re.compile(r"\[.*; 33\].*(Serialize|Deserialize)|Deserialize<'_>` is not (satisfied|implemented) for `\[|"
                r"`\[[^`]*; (3[3-9]|[4-9]\d|\d{3,})\]: (serde::)?(Serialize|Deserialize)"),
     "serde-array-over-32"),
]
# the derive switch that has to be on for the known shape to be the known finding: the same
# rustc message under another option set is a different defect and gets its own signature
SHAPE_NEEDS = {"encase-f64": "en", "encase-bool": "en", "bytemuck-bool": "bh",
               "serde-array-over-32": "se"}


def culprit(case, diags, opt=None):
    for t in getattr(case.spec, "families", []):
        if t not in ("hostile",) and "hostile" in case.spec.families:
            return t
    d = diags[0]
    msg = d.get("message") or ""
    for rx, name in KNOWN_SHAPES:
        if rx.search(msg):
            if opt is not None and not opt.get(SHAPE_NEEDS[name]):
                return "%s:without-%s" % (name, SHAPE_NEEDS[name])
            return name
    return "%s:%s" % (d.get("code") or "E????", normalise(msg))


def fixture_cases(tier):
    cases = []
    paths = sorted(glob.glob(os.path.join(core.VERIF, "gen", "corpus", "*.wgsl"))) + \
        core.corpus_fixture_shaders()
    optsets = [{}, {"bv": True, "en": True, "mv": "glam"}, {"se": True, "en": True},
               {"bv": True, "mv": "nalgebra", "en": True, "se": True},
               {"bv": True, "en": True, "mv": "glam", "fmt": True, "val": "all"}]
    for p in paths:
        class Spec:
            families = ["fixture"]
        c = probes.Case.__new__(probes.Case)
        c.id = "fx_" + re.sub(r"[^A-Za-z0-9]", "_", os.path.basename(p))[:-5]
        c.family = "fixture"
        c.spec = Spec()
        c.wgsl = open(p).read()
        c.truth = {}
        c.cfgs = [{"opt": o, "id": probes.cfg_id(o)} for o in optsets]
        c.gen = {}
        c.fixture = True
        cases.append(c)
    return cases


def hostile_cases():
    cases = []
    for i, spec in enumerate(F.hostile_specs()):
        c = probes.Case("h%d" % i, "hostile", spec)
        tag = [t for t in spec.families if t != "hostile"][0]
        opts = [{}, {"fmt": True}]
        if tag in ("serde-array-over-32",):
            opts = [{"se": True}]
        elif tag == "bool-in-private-struct":
            opts = [{"bh": True}, {"en": True}]
        elif tag == "f64-member":
            opts = [{"en": True}, {"bh": True}]
        c.cfgs = [{"opt": o, "id": probes.cfg_id(o)} for o in opts]
        cases.append(c)
    return cases


def main(tier, replay, t0):
    binp = core.build_drive()
    viol = []
    texts = {}   # canon sha -> (path, case, cfg)
    total_texts = 0
    by_config = {}
    declines = 0
    # 1. texts of the four campaigns (already on disk)
    for fam in ("bind", "struct", "entry", "const"):
        camp = probes.campaign(fam, tier)
        for c in camp.cases.values():
            if c.frontend_rejected:
                continue
            for x in c.cfgs:
                g = c.gen[x["id"]]
                if g.get("result") != "ok":
                    declines += 1
                    continue
                total_texts += 1
                key = g.get("canon_sha") or g.get("text_sha")
                if x.get("include_path") is not None:
                    if x["include_path"] in ("", " ") or "\n" in x["include_path"]:
                        continue  # include_str! of a path that cannot name a file next to the
                        # module: rejection is the caller's, not the generator's
                    key = key + "|inc"
                by_config[x["id"][:8]] = by_config.get(x["id"][:8], 0) + 1
                texts.setdefault(key, (os.path.join(x["dir"], "m.rs"), c, x))
    # 2. fixtures and hostile identifiers: generate now
    d = os.path.join(core.WORK, "c01-%s-%s-s%d" % (tier, core.tree_key(), core.seed()))
    for old_dir in glob.glob(os.path.join(core.WORK, "c01-*")):
        shutil.rmtree(old_dir, ignore_errors=True)  # scratch of earlier trees / seeds
    extra = fixture_cases(tier) + hostile_cases()
    jobs = []
    for c in extra:
        for x in c.cfgs:
            x["dir"] = os.path.join(d, "cases", c.id, x["id"])
            jobs.append({"id": "%s|%s" % (c.id, x["id"]), "source": c.wgsl, "opt": x["opt"],
                         "out": os.path.join(x["dir"], "m.rs"), "canon": True, "ref": True})
    res, crashed = core.run_drive_sharded(binp, jobs, "c01-extra", shards=8)
    if crashed:
        raise core.Inconclusive("drive crashed: %r" % crashed[:1])
    fixture_declined = []
    for c in extra:
        for x in c.cfgs:
            g = res.get("%s|%s" % (c.id, x["id"]), {"result": "lost"})
            c.gen[x["id"]] = g
            ref = g.get("ref", {})
            valid = ref.get("parse") == "ok" and ref.get("valid_all") == "ok"
            if g.get("result") != "ok":
                if c.family == "hostile" and g.get("result") == "panic":
                    tag = [t for t in c.spec.families if t != "hostile"][0]
                    viol.append(Violation("generator-panics", tag,
                                          "valid WGSL (naga accepts) makes the generator panic: %s"
                                          % g.get("panic"), {"case_id": c.id, "wgsl": c.wgsl, "options": x["opt"]}))
                elif c.family == "fixture" and valid and x["opt"].get("en"):
                    fixture_declined.append((c.id, x["id"], g.get("panic") or g.get("err_kind")))
                declines += 1
                continue
            total_texts += 1
            texts.setdefault((g.get("canon_sha") or g["text_sha"]) + "|" + c.id,
                             (os.path.join(x["dir"], "m.rs"), c, x))
    # 2b. formatter on, formatter faulty: whatever text comes back as Ok must still be the
    # complete module (it is compiled like every other text)
    real = shutil.which("rustfmt") or ""
    fcases = [c for c in extra if getattr(c, "fixture", False)][:6]
    fault_texts = 0
    for stub in ("partial_then_exit1", "garbage_exit3", "read_some_then_exit1", "echo_then_exit1",
                 "midchar_then_exit1", "partial_then_kill"):
        jobs = []
        fx = {}
        for c in fcases:
            x = {"opt": {"fmt": True, "en": True}, "id": "fault_" + stub,
                 "dir": os.path.join(d, "cases", c.id, "fault_" + stub)}
            fx[c.id] = x
            jobs.append({"id": c.id, "source": c.wgsl, "opt": x["opt"], "canon": True,
                         "out": os.path.join(x["dir"], "m.rs")})
        res2, crashed = core.run_drive_sharded(
            binp, jobs, "c01-fault-" + stub, shards=2,
            extra_env={"PATH": os.path.join(core.VERIF, "stubs", stub),
                       "VERIF_REAL_RUSTFMT": real})
        if crashed:
            raise core.Inconclusive("drive crashed under formatter fault %s: %r" % (
                stub, crashed[:1]))
        for c in fcases:
            g = res2.get(c.id, {})
            if g.get("result") != "ok":
                continue
            fault_texts += 1
            total_texts += 1
            x = fx[c.id]
            x = dict(x, opt=dict(x["opt"], formatter_fault=stub))
            texts.setdefault((g.get("canon_sha") or g["text_sha"]) + "|" + c.id,
                             (os.path.join(fx[c.id]["dir"], "m.rs"), c, x))
    # 3. compile against the real crates
    items = sorted(texts.items())
    nshards = max(core.NCPU, (len(items) + 149) // 150)
    shard_mods = {i: [] for i in range(nshards)}
    meta = {}
    root = os.path.join(d, "ws")
    casedir = "/"  # attribute by absolute path
    for k, (key, (path, c, x)) in enumerate(items):
        name = "t%d" % k
        shard_mods[k % nshards].append((name, path, "module", c.id, x["id"], ""))
        meta[os.path.relpath(path, casedir)] = (c, x)
    probes.write_workspace(root, nshards, real_wgpu=True)
    rustc, rounds, live = probes.cargo_fixpoint(root, shard_mods, casedir,
                                                os.path.join(core.TARGET, "typecheck"),
                                                mode="check", max_rounds=25)
    accepted = sum(len(v) for v in live.values())
    perm = {"assert": 0, "pod_padding": 0}
    rejected = 0
    samples = []
    for rel, r in rustc.items():
        if r.get("accepted") or rel not in meta:
            continue
        c, x = meta[rel]
        rejected += 1
        kinds = [permitted(dg, c) for dg in r["diags"]]
        if r["diags"] and all(kinds):
            for k_ in set(kinds):
                perm[k_] += 1
            continue
        bad = [dg for dg, k_ in zip(r["diags"], kinds) if not k_]
        viol.append(Violation("does-not-compile", culprit(c, bad, x["opt"]),
                              "returned module is rejected by rustc against wgpu 24.0.5 + the "
                              "crates its options name: [%s] %s" % (bad[0].get("code"),
                                                                   bad[0].get("message")),
                              {"case_id": c.id, "wgsl": c.wgsl, "options": x["opt"],
                               "rustc": [(dg.get("code"), dg.get("message")) for dg in bad][:4],
                               "rendered": bad[0].get("rendered", "")[:1500]}))
    for k, (key, (path, c, x)) in enumerate(items[:3]):
        samples.append({"case": c.id, "options": x["opt"], "module": path,
                        "verdict": "accepted" if os.path.relpath(path, casedir) not in rustc or
                        rustc[os.path.relpath(path, casedir)].get("accepted") else "rejected"})
    shutil.rmtree(os.path.join(d, "ws"), ignore_errors=True)
    inconclusive = []
    if fixture_declined:
        inconclusive.append("generator declines the repository's own shaders: %r" %
                            fixture_declined[:3])
    if accepted < 50:
        inconclusive.append("only %d modules accepted" % accepted)
    core.finish("C01", tier, "exploration", t0, viol, {
        "evaluations": total_texts, "distinct_nontrivial": len(items),
        "rule": "every text returned for the bind/struct/entry/const campaigns (all their option "
                "sets incl. the 16x3 derive matrix, formatter and validation variants), the "
                "repository's own shaders under 5 option sets, and %d hostile-identifier shaders; "
                "de-duplicated by canonical token form; non-trivial = distinct canonical text "
                "actually handed to rustc" % len(hostile_cases()),
        "samples": samples, "texts_returned": total_texts, "texts_compiled": len(items),
        "accepted": accepted, "rejected": rejected, "permitted_rejections": perm,
        "compile_rounds": rounds, "by_config_prefix": by_config,
        "cases_declined_by_tool": declines,
    }, assumptions=[
        "real nalgebra is not available offline: the Nalgebra third is compiled against a "
        "stand-in crate with the same paths and layout",
        "rustc 1.95 with default lint levels; deny-by-default lints count as errors, warnings "
        "do not"], inconclusive=inconclusive)
