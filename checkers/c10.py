"""C10 - encase + glam structs serialise every field at its WGSL offset.

Events: the byte images produced by encase::StorageBuffer / UniformBuffer ::write for probe
values of every host-shareable struct built from glam-representable members, in the module
generated with encase derives and the glam representation; scalar component k of the value
carries the number k.
Oracle: the independent WGSL layout calculator: component k must be found at its WGSL offset and
the image length must be the WGSL size (runtime arrays: max(n,1) elements).
"""
import struct as ps

from vlib import core, probes
from vlib.core import Violation
from gen import wtypes as W


def decode(b, off, kind):
    if off + 4 > len(b):
        return None
    if kind == "f32":
        return ps.unpack_from("<f", b, off)[0]
    if kind == "i32":
        return ps.unpack_from("<i", b, off)[0]
    return ps.unpack_from("<I", b, off)[0]


def main(tier, replay, t0):
    camp = probes.campaign("struct", tier)
    viol = []
    images = 0
    comps = 0
    nontrivial = set()
    samples = []
    lost = 0
    attr_structs = 0
    for c in camp.cases.values():
        if c.frontend_rejected:
            continue
        spec = c.spec
        for x in c.cfgs:
            opt = x["opt"]
            if x.get("matrix") or not (opt.get("en") and opt.get("mv") == "glam"):
                continue
            g_ = c.gen[x["id"]]
            if g_.get("result") == "panic" and not opt.get("bh"):
                # encase on, bytemuck host-shareable off: nothing documented refuses this set,
                # whatever the vertex switch says
                viol.append(Violation("encase-option-set-refused", "bv" if opt.get("bv") else "-",
                                      "generation panics for encase + glam (%s): nothing can be "
                                      "written through encase" % g_.get("panic"),
                                      {"case_id": c.id, "wgsl": c.wgsl, "options": opt}))
                continue
            if g_.get("result") != "ok":
                continue
            base = {"case_id": c.id, "wgsl": c.wgsl, "options": opt}
            if not camp.module_ok(c.id, x["id"]):
                lost += 1
                host = [s for s in spec.host_structs() if s in spec.emitted_structs()]
                diags = camp.rustc.get("%s/%s/m.rs" % (c.id, x["id"]), {}).get("diags", [])
                if opt.get("se"):
                    # serde's own limit (arrays above 32 elements) is C01's recorded finding and
                    # says nothing about the encase image
                    import re as _re
                    diags = [d for d in diags if not _re.search(
                        r"`\[[^`]*; (3[3-9]|[4-9]\d|\d{3,})\]: (serde::)?(Serialize|Deserialize)",
                        d.get("message") or "")]
                permitted = all("derive(Pod) was applied to a type with padding" in
                                (d.get("message") or "") or "does not match WGSL" in
                                (d.get("message") or "") for d in diags)
                if host and diags and not permitted and all(
                        W.glam_representable(W.ST(s), spec.structs) for s in host):
                    viol.append(Violation("encase-module-rejected", diags[0].get("code") or "?",
                                          "every host-shareable struct is glam-representable, yet "
                                          "the module generated with encase + glam does not "
                                          "compile: %s" % diags[0].get("message"),
                                          dict(base, rustc=[d.get("message") for d in diags][:4])))
                continue
            ps_ = camp.probe_state(c.id, x["id"], "probe_c10")
            if ps_ is None:
                continue
            if not ps_["accepted"]:
                d = ps_.get("diags") or [{}]
                viol.append(Violation("encase-surface", d[0].get("code") or "probe",
                                      "a host-shareable struct cannot be built / written through "
                                      "encase: %s" % d[0].get("message"), dict(base, rustc=d[:2])))
                continue
            for e in camp.ev(c.id, x["id"], "C10", "bytes"):
                images += 1
                s = e["struct"]
                sd = spec.structs[s]
                rp = dict(base, struct=sd.wgsl(), space=e["space"], n_runtime=e["n_runtime"])
                has_attr = any(m.get("size") or m.get("align") for n in
                               [s] + W.reachable_structs(W.ST(s), spec.structs)
                               for m in spec.structs[n].members)
                if has_attr:
                    attr_structs += 1
                has_builtin = any(m.get("builtin") for n in
                                  [s] + W.reachable_structs(W.ST(s), spec.structs)
                                  for m in spec.structs[n].members)
                culprit = "builtin-member" if has_builtin else "explicit-size-align" if has_attr else (
                    "runtime-array" if W.has_runtime_array(sd) else "plain")
                if not e["ok"]:
                    viol.append(Violation("write-failed", culprit, "encase write returned an error",
                                          rp))
                    continue
                b = bytes.fromhex(e["hex"])
                vb = W.ValueBuilder(spec.structs, "glam", "m", runtime_len=e["n_runtime"])
                vb.build(W.ST(s), 0)
                e["components"] = [[o, k, v] for (o, k, v) in vb.components]
                lay = W.struct_layout(sd, spec.structs, runtime_len=max(e["n_runtime"], 1))
                want_len = lay["size"]
                if len(sd.members) >= 2:
                    nontrivial.add((c.id, s, e["n_runtime"], e["space"]))
                bad = None
                for off, kind, val in e["components"]:
                    comps += 1
                    got = decode(b, off, kind)
                    if got is None or got != val:
                        bad = (off, kind, val, got)
                        break
                if bad:
                    # where did the component actually land?
                    found = None
                    for o in range(0, len(b) - 3, 4):
                        if decode(b, o, bad[1]) == bad[2]:
                            found = o
                            break
                    viol.append(Violation("component-misplaced", culprit,
                                          "component %d (%s) of %s should be at WGSL offset %d; "
                                          "found %s there, the value sits at %s" % (
                                              bad[2], bad[1], s, bad[0], bad[3], found),
                                          dict(rp, image_hex=e["hex"][:512])))
                elif len(b) != want_len:
                    viol.append(Violation("image-length", culprit,
                                          "byte image of %s has %d bytes, WGSL size is %d" % (
                                              s, len(b), want_len), dict(rp, image_hex=e["hex"][:256])))
                if len(samples) < 4 and len(e["components"]) > 4:
                    samples.append({"struct": sd.wgsl(), "space": e["space"],
                                    "n_runtime": e["n_runtime"], "bytes": len(b),
                                    "components": e["components"][:6]})
    inconclusive = []
    if images < 20:
        inconclusive.append("only %d byte images observed" % images)
    core.finish("C10", tier, "exploration", t0, viol, {
        "evaluations": images, "distinct_nontrivial": len(nontrivial),
        "rule": "struct family, configuration encase + glam: every host-shareable struct built "
                "from glam-representable members (f32/i32/u32 scalars and vec2-4, square f32 "
                "matrices, fixed arrays, nesting, trailing runtime arrays with 0/1/2/4 elements, "
                "@size/@align members, vec3 traps) is written through StorageBuffer (and "
                "UniformBuffer when bound as uniform); non-trivial = image of a struct with >= 2 "
                "members",
        "samples": samples, "images": images, "components_checked": comps,
        "structs_with_explicit_size_or_align": attr_structs,
        "modules_lost_to_compile_errors": lost,
    }, assumptions=[
        "f64 members are outside: encase 0.10 has no f64 (the module does not compile; C01)",
        "non-square matrices are outside the statement (glam has no equivalent)"],
        inconclusive=inconclusive)
