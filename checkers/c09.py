"""C09 - derives and repr follow the write options exactly.

Events: trait-implementation probes (autoref specialisation) for every emitted struct x trait,
evaluated in the compiled module; derive lists, #[repr(C)] and layout assertions from the item
inventory of the returned text (also for modules rustc rejects); two projections of the text
across all option sets of one shader (derive lists + assertions blanked; additionally field
types blanked).
Oracle: the table role x switches from the property; equality of projections.
"""
from vlib import core, probes
from vlib.core import Violation
from gen import wtypes as W

TR = ["Debug", "Clone", "Copy", "PartialEq", "Pod", "Zeroable", "ShaderType", "Serialize",
      "DeserializeOwned"]
DERIVE_NAME = {"Debug": "Debug", "Clone": "Clone", "Copy": "Copy", "PartialEq": "PartialEq",
               "Pod": "bytemuck::Pod", "Zeroable": "bytemuck::Zeroable",
               "ShaderType": "encase::ShaderType", "Serialize": "serde::Serialize",
               "DeserializeOwned": "serde::Deserialize"}


def expected(spec, s, opt):
    sd = spec.structs[s]
    rts = W.has_runtime_array(sd)
    host = s in spec.host_structs()
    e = {"Debug": True, "Clone": True, "PartialEq": True, "Copy": not rts}
    pod = (host and opt.get("bh", False)) or ((not host) and opt.get("bv", False))
    e["Pod"] = e["Zeroable"] = pod
    e["ShaderType"] = host and opt.get("en", False)
    e["Serialize"] = e["DeserializeOwned"] = opt.get("se", False)
    return e, rts, host


def main(tier, replay, t0):
    camp = probes.campaign("struct", tier)
    viol = []
    probes_n = 0
    inv_n = 0
    nontrivial = set()
    proj_compared = 0
    role_cells = {}
    samples = []
    for c in camp.cases.values():
        if c.frontend_rejected:
            continue
        spec = c.spec
        projs_all = {}
        projs_by_mv = {}
        for x in c.cfgs:
            g = c.gen[x["id"]]
            opt = x["opt"]
            base = {"case_id": c.id, "wgsl": c.wgsl, "options": opt}
            if g.get("result") != "ok":
                # documented refusals: a runtime-array struct without encase, or with the
                # bytemuck switch that applies to it (host-shareable); anything else is an
                # option changing what it does not document
                rts_structs = [s for s in spec.emitted_structs()
                               if W.has_runtime_array(spec.structs[s])]
                documented = bool(rts_structs) and (not opt.get("en") or opt.get("bh"))
                if g.get("result") == "panic" and not documented:
                    which = "+".join(k for k in ("bv", "bh", "en", "se") if opt.get(k)) or "none"
                    viol.append(Violation("option-set-refused", "%s:%s" % (
                        "rts" if rts_structs else "plain", which),
                        "generation panics for option set %s (%s) although no documented "
                        "restriction applies" % (x["id"], g.get("panic")), base))
                continue
            mv = opt.get("mv", "rust")
            if g.get("proj_types_sha"):
                projs_all.setdefault(g["proj_types_sha"], []).append(x["id"])
                projs_by_mv.setdefault(mv, {}).setdefault(g["proj_derives_sha"], []).append(
                    x["id"])
            inv = {s["name"]: s for s in g.get("inv", {}).get("structs", [])}
            asserts = g.get("inv", {}).get("asserts", [])
            compiled = camp.module_ok(c.id, x["id"])
            observed = {}
            if compiled:
                for e in camp.ev(c.id, x["id"], "C09", "trait"):
                    observed.setdefault(e["struct"], {})[e["trait"]] = e["has"]
            for s in spec.emitted_structs():
                it = inv.get(s)
                if it is None:
                    continue
                exp, rts, host = expected(spec, s, opt)
                role = ("host" if host else "io") + ("+rts" if rts else "")
                role_cells[role] = role_cells.get(role, 0) + 1
                if x.get("matrix"):
                    nontrivial.add((c.id, s, x["id"]))
                # (a) from the derive list (available for every returned text)
                inv_n += 1
                for t in TR:
                    has = DERIVE_NAME[t] in it["derives"]
                    if has != exp[t]:
                        viol.append(Violation("derive-list", "%s:%s:%s" % (
                            role, t, "missing" if exp[t] else "unexpected"),
                            "struct %s (%s) with options %s: derive %s is %s" % (
                                s, role, x["id"], DERIVE_NAME[t],
                                "missing" if exp[t] else "present but should not be"),
                            dict(base, derives=it["derives"])))
                if ("C" in it["repr"]) != (not rts):
                    viol.append(Violation("repr-c", role, "struct %s: #[repr(C)] %s" % (
                        s, "missing" if not rts else "present on a runtime-sized struct"), base))
                want_asserts = host and opt.get("bh", False)
                mine = [a for a in asserts if ("< %s >" % s) in a or ("(%s ," % s) in a
                        or (" %s ," % s) in a]
                if want_asserts and mine:
                    # exactly: one size assertion and one offset assertion per field
                    sd = spec.structs[s]
                    has_size = any("size_of" in a and ("< %s >" % s) in a for a in mine)
                    missing = [m["name"] for m in sd.data_members()
                               if not any("offset_of" in a and ("(%s , %s)" % (s, m["name"])) in a
                                          for a in mine)]
                    if not has_size or missing:
                        viol.append(Violation("layout-assertions-incomplete", "%s:%s" % (
                            role, "size" if not has_size else "offset"),
                            "struct %s with options %s: %s" % (
                                s, x["id"], "size assertion missing" if not has_size else
                                "no offset assertion for field(s) %s" % missing),
                            dict(base, asserts=mine[:6])))
                if bool(mine) != want_asserts:
                    viol.append(Violation("layout-assertions", "%s:%s" % (
                        role, "missing" if want_asserts else "unexpected"),
                        "struct %s: layout assertions %s with options %s" % (
                            s, "missing" if want_asserts else "present", x["id"]), base))
                # (b) behavioural: trait implementations of the compiled struct
                if s in observed:
                    for t in TR:
                        probes_n += 1
                        if observed[s].get(t) != exp[t]:
                            viol.append(Violation("trait-impl", "%s:%s:%s" % (
                                role, t, "missing" if exp[t] else "unexpected"),
                                "compiled struct %s (%s), options %s: implements %s = %s, "
                                "expected %s" % (s, role, x["id"], t, observed[s].get(t), exp[t]),
                                base))
            if len(samples) < 3 and compiled and observed and x.get("matrix"):
                s0 = sorted(observed)[0]
                samples.append({"case": c.id, "options": opt, "struct": s0,
                                "traits": observed[s0]})
        # projections: no option changes anything but what it documents
        if len(projs_all) > 1:
            proj_compared += 1
            groups = sorted(projs_all.values(), key=len)
            viol.append(Violation("option-changes-other-parts", "any",
                                  "outputs of one shader differ beyond derive lists, layout "
                                  "assertions and field types: option sets %s vs %s" % (
                                      groups[0][:3], groups[-1][:3]), {"case_id": c.id, "wgsl": c.wgsl}))
        elif projs_all:
            proj_compared += 1
        for mv, d in projs_by_mv.items():
            if len(d) > 1:
                groups = sorted(d.values(), key=len)
                viol.append(Violation("derive-switch-changes-other-parts", mv,
                                      "with representation %s, derive switches change more than "
                                      "derive lists and assertions: %s vs %s" % (
                                          mv, groups[0][:3], groups[-1][:3]), {"case_id": c.id, "wgsl": c.wgsl}))
    # the options are the only switches: the environment of a build script (target
    # architecture, profile ...) must not turn derives or assertions on or off
    binp = core.build_drive()
    envs = [{"CARGO_CFG_TARGET_ARCH": "wasm32", "CARGO_CFG_TARGET_OS": "unknown",
             "CARGO_CFG_TARGET_FAMILY": "wasm", "TARGET": "wasm32-unknown-unknown",
             "HOST": "x86_64-unknown-linux-gnu", "PROFILE": "release", "OPT_LEVEL": "3",
             "DEBUG": "false", "CARGO_FEATURE_SERDE": "1", "CARGO_FEATURE_BYTEMUCK": "1"},
            {"CARGO_CFG_TARGET_ARCH": "aarch64", "CARGO_CFG_TARGET_OS": "android",
             "TARGET": "aarch64-linux-android", "PROFILE": "debug", "OPT_LEVEL": "0",
             "DEBUG": "true", "CARGO_CFG_TARGET_POINTER_WIDTH": "32",
             "CARGO_CFG_TARGET_ENDIAN": "big", "RUSTFLAGS": "-C target-feature=+simd128"}]
    ejobs = []
    emeta = {}
    for c in camp.cases.values():
        if c.frontend_rejected:
            continue
        for x in c.cfgs:
            if not x.get("matrix") or c.gen[x["id"]].get("result") != "ok":
                continue
            jid = "%s|%s" % (c.id, x["id"])
            ejobs.append({"id": jid, "source": c.wgsl, "opt": x["opt"]})
            emeta[jid] = (c, x)
    env_compared = 0
    for k, e in enumerate(envs):
        res, crashed = core.run_drive_sharded(binp, ejobs, "c09/env%d" % k, extra_env=e)
        if crashed:
            raise core.Inconclusive("drive crashed under environment %d: %r" % (k, crashed[:1]))
        for jid, r in res.items():
            c, x = emeta[jid]
            env_compared += 1
            if r.get("result") != "ok" or r.get("text_sha") != c.gen[x["id"]].get("text_sha"):
                viol.append(Violation("environment-changes-output", e["CARGO_CFG_TARGET_ARCH"],
                                      "with the build-script environment %r the text returned "
                                      "for the same shader and option set differs" % e,
                                      {"case_id": c.id, "wgsl": c.wgsl, "options": x["opt"],
                                       "env": e}))
    inconclusive = []
    if probes_n == 0:
        inconclusive.append("no trait probe ran")
    core.finish("C09", tier, "exploration", t0, viol, {
        "evaluations": inv_n + probes_n, "distinct_nontrivial": len(nontrivial),
        "rule": "struct family; for the first %d shaders all 16 derive switch sets x 3 "
                "representations, for the others 3-4 option sets per representation; one "
                "evaluation = one (struct, option set) derive list or one (struct, trait, option "
                "set) probe in a compiled module; non-trivial = (shader, struct, option set) of "
                "the full matrix" % probes.SIZES[tier]["c09matrix"],
        "samples": samples, "trait_probes": probes_n, "derive_lists": inv_n,
        "projections_compared": proj_compared, "role_cells": role_cells,
    }, assumptions=[
        "runtime-array structs are only generated with encase on and bytemuck host-shareable off "
        "(the other combinations are documented panics)",
        "trait probes need a module that compiles; for rejected modules the derive list of the "
        "item is the observation"], inconclusive=inconclusive)
