"""C16 - embedded shader source is byte-identical to the input.

Events: SOURCE evaluated inside the compiled module (hex), the ShaderModuleDescriptor recorded
by the shadow device when the generated create_shader_module runs, the include_str! argument
literal (value, via syn) and the canonical form of the module without the SOURCE item.
Oracle: the original bytes; the given path; equality of the include and embedded variants
outside SOURCE.
"""
from vlib import core, probes
from vlib.core import Violation


def char_classes(text):
    cls = set()
    for ch in text:
        o = ord(ch)
        if ch == '"':
            cls.add("dquote")
        elif ch == "'":
            cls.add("squote")
        elif ch == "\\":
            cls.add("backslash")
        elif ch in "{}":
            cls.add("brace")
        elif ch == "\r":
            cls.add("CR")
        elif ch == "\t":
            cls.add("tab")
        elif o == 0:
            cls.add("NUL")
        elif o < 32 and ch != "\n":
            cls.add("control")
        elif o == 0x7f:
            cls.add("DEL")
        elif 0x80 <= o < 0x10000:
            cls.add("non-ascii-bmp")
        elif o >= 0x10000:
            cls.add("non-bmp")
        elif ch == "#":
            cls.add("hash")
    if "\r\n" in text:
        cls.add("CRLF")
    return cls


def main(tier, replay, t0):
    viol = []
    n = 0
    classes = set()
    nontrivial = set()
    samples = []
    paths_seen = set()
    for fam in ("const", "bind"):
        camp = probes.campaign(fam, tier)
        for c in camp.cases.values():
            if c.frontend_rejected:
                continue
            orig = c.wgsl.encode("utf-8")
            cls = char_classes(c.wgsl)
            emb = {}
            for x in c.cfgs:
                g = c.gen[x["id"]]
                if g.get("result") != "ok":
                    v = probes.refusal_violation(c, x, "SOURCE item")
                    if v:
                        viol.append(v)
                    continue
                base = {"case_id": c.id, "wgsl": c.wgsl, "options": x["opt"], "include_path": x.get("include_path")}
                inv = g.get("inv", {})
                src_item = [k for k in inv.get("consts", []) if k["name"] == "SOURCE"]
                fmt = bool(x["opt"].get("fmt"))
                if x.get("include_path") is not None:
                    n += 1
                    paths_seen.add(x["include_path"])
                    if not src_item or src_item[0].get("include_str") != x["include_path"]:
                        viol.append(Violation("include-path", "literal",
                                              "SOURCE is %s, expected include_str! of exactly %r"
                                              % (src_item[0].get("include_str") if src_item
                                                 else None, x["include_path"]),
                                              dict(base, source_item=src_item[:1])))
                    ref = emb.get(fmt)
                    if ref and g.get("canon_nosrc_sha") and ref != g["canon_nosrc_sha"]:
                        viol.append(Violation("include-variant-differs", "fmt" if fmt else "plain",
                                              "include and embedded variants differ outside the "
                                              "SOURCE item", base))
                else:
                    if g.get("canon_nosrc_sha"):
                        emb[fmt] = g["canon_nosrc_sha"]
                if not camp.module_ok(c.id, x["id"]):
                    continue
                ps = camp.probe_state(c.id, x["id"], "probe_c16")
                if not ps or not ps["accepted"]:
                    d = (ps or {}).get("diags") or [{}]
                    viol.append(Violation("source-surface-missing", d[0].get("code") or "probe",
                                          "SOURCE / create_shader_module unusable: %s" %
                                          d[0].get("message"), base))
                    continue
                evs = camp.ev(c.id, x["id"], "C16")
                se = [e for e in evs if e["op"] == "source"]
                dm = [e for e in evs if e["op"] == "dev.create_shader_module"]
                n += 1
                classes |= cls
                if cls - {"non-ascii-bmp"}:
                    nontrivial.add((c.wgsl, x["id"]))
                if se:
                    got = bytes.fromhex(se[0]["hex"])
                    if got != orig:
                        i = next((k for k in range(min(len(got), len(orig))) if got[k] != orig[k]),
                                 min(len(got), len(orig)))
                        around = orig[max(0, i - 8):i + 8]
                        what = "CRLF" if b"\r\n" in orig[max(0, i - 2):i + 2] else (
                            "control" if i < len(orig) and orig[i] < 32 else "text")
                        viol.append(Violation("source-differs", what + ("+fmt" if fmt else ""),
                                              "SOURCE differs from the input at byte %d (input "
                                              "%r, SOURCE has %d bytes, input %d)" % (
                                                  i, around, len(got), len(orig)), base))
                if len(dm) != 1:
                    viol.append(Violation("create-shader-module-count", str(len(dm)),
                                          "create_shader_module made %d device calls" % len(dm),
                                          base))
                elif bytes.fromhex(dm[0]["source_hex"]) != orig or dm[0]["kind"] != "wgsl":
                    viol.append(Violation("device-gets-other-source", dm[0]["kind"],
                                          "create_shader_module hands the device a string that is "
                                          "not the input", base))
            if len(samples) < 3 and cls & {"dquote", "backslash", "CR"}:
                samples.append({"classes": sorted(cls), "head": c.wgsl[:200]})
    n += faulty_formatter_runs(viol, tier)
    n += sequence_and_environment_runs(viol, tier)
    inconclusive = []
    need = {"dquote", "backslash", "brace", "CRLF", "control", "NUL", "non-ascii-bmp", "non-bmp"}
    if not need <= classes:
        inconclusive.append("character classes never generated: %s" % sorted(need - classes))
    core.finish("C16", tier, "exploration", t0, viol, {
        "evaluations": n, "distinct_nontrivial": len(nontrivial),
        "rule": "const family (hostile comments: quotes, backslashes, braces, raw-string "
                "look-alikes, control characters, DEL, BOM-like and bidi characters, non-BMP, "
                "LF/CRLF line endings; non-ASCII identifiers) and bind family, embedded and "
                "include variants (12 hostile paths: spaces, quotes, braces, backslash, '..', "
                "tab, non-ASCII, emoji) x formatter on/off; non-trivial = text with a character "
                "class beyond plain ASCII",
        "samples": samples, "sources": n, "char_classes_hit": sorted(classes),
        "include_paths": sorted(paths_seen),
    }, assumptions=["NUL and other control characters are generated inside comments (naga "
                    "accepts them there); U+0085 is a line break for naga and is not used"],
        inconclusive=inconclusive)


def faulty_formatter_runs(viol, tier):
    """'formatter on/off' is part of this property's quantifier: with the formatter on, whatever
    the formatter does (works, fails after partial output, prints garbage), SOURCE in the
    returned text must still evaluate to the input"""
    import hashlib  # noqa: F401
    import os
    import shutil
    binp = core.build_drive()
    real = shutil.which("rustfmt")
    camp = probes.campaign("const", tier)
    cases = [c for c in camp.cases.values() if not c.frontend_rejected][:24]
    n = 0
    # a few sources with statement and block ends followed by a space inside one line
    class X:
        pass
    for k, body in enumerate(["for (var i = 0; i < 4; i = i + 1) { if (i > 2) { break; } else { continue; } }",
                              "var a = 1; var b = 2; { a = b; } { b = a; } // x; y } z { w"]):
        x = X()
        x.id = "semi%d" % k
        x.wgsl = "// a; b } c { d ; e\n@compute @workgroup_size(1)\nfn main() { %s }\n" % body
        cases.append(x)
    for stub in ("partial_then_kill", "partial_then_exit1", "garbage_exit3", "empty_ok", "absent",
                 "exit1_immediately", "exit0_without_reading", "midchar_then_exit1"):
        jobs = [{"id": c.id, "source": c.wgsl, "opt": {"fmt": True}, "inv": True} for c in cases]
        p, res = core.run_drive(binp, jobs, "c16/fault-" + stub, timeout=600,
                                extra_env={"PATH": os.path.join(core.VERIF, "stubs", stub),
                                           "VERIF_REAL_RUSTFMT": real or ""})
        by = {r["id"]: r for r in res}
        for c in cases:
            r = by.get(c.id)
            if not r or r.get("result") != "ok":
                continue  # C19 judges panics / errors under formatter faults
            n += 1
            inv = r.get("inv", {})
            src = [k for k in inv.get("consts", []) if k["name"] == "SOURCE"]
            want_len = len(c.wgsl.encode("utf-8"))
            if "parse_error" in inv or not src or src[0].get("str_len") != want_len or \
                    src[0].get("str_sha") != core.hash_hex(c.wgsl.encode("utf-8")):
                viol.append(Violation("source-lost-under-formatter-fault", stub,
                                      "with the formatter on and the formatter %s, the returned "
                                      "text has no SOURCE equal to the input (%s)" % (
                                          stub, "does not parse" if "parse_error" in inv else
                                          "length %s vs %d, content %s" % (
                                              src[0].get("str_len") if src else None, want_len,
                                              "differs" if src and src[0].get("str_len") ==
                                              want_len else "-")),
                                      {"case_id": c.id, "wgsl": c.wgsl, "options": {"fmt": True},
                                       "formatter": stub}))
    return n


def sequence_and_environment_runs(viol, tier):
    """(1) the caller reuses its buffer: two calls whose sources have the same address and
    length but another text - the second module must be the second source's; (2) the
    environment of a build script (CARGO_MANIFEST_DIR, OUT_DIR ...) and an absolute include
    path inside that directory: SOURCE must still be include_str! of exactly the given path"""
    import os
    binp = core.build_drive()
    camp = probes.campaign("const", tier)
    cases = [c for c in camp.cases.values() if not c.frontend_rejected][:30 if tier == "quick"
                                                                       else 300]
    n = 0
    jobs = []
    for k, c in enumerate(cases):
        a = "// variant A %04d\n" % k + c.wgsl
        b = "// variant B %04d\n" % ((k * 7 + 1) % 10000) + c.wgsl
        opt = [{}, {"bv": True}, {"fmt": True}][k % 3] if k % 3 != 2 else {}
        j = {"id": c.id, "source": a, "opt": opt, "inplace": b}
        if k % 2:
            j["include_path"] = "shaders/%s.wgsl" % c.id
        jobs.append(j)
    p, res = core.run_drive(binp, jobs, "c16/inplace", timeout=600)
    if p.returncode != 0 or len(res) != len(jobs):
        raise core.Inconclusive("in-place sequence run failed: %s" % p.stderr[-800:])
    for r, j in zip(sorted(res, key=lambda r: r["seq"]), jobs):
        ip = r.get("inplace") or {}
        if "second" not in ip:
            continue
        n += 1
        if ip["second"] != ip["fresh"]:
            viol.append(Violation("stale-module-for-reused-buffer",
                                  "include" if j.get("include_path") else "embedded",
                                  "two calls with sources of equal address and length but "
                                  "different text: the second call did not return the second "
                                  "source's module", {"first": j["source"], "second": j["inplace"],
                                                      "options": j["opt"],
                                                      "include_path": j.get("include_path")}))
    # concurrent formatter-on calls above the pipe buffer: each SOURCE must be its own input
    import shutil as _sh
    real = _sh.which("rustfmt")
    if real:
        bigs = []
        for k in range(6):
            c = cases[k % len(cases)]
            src = "// big %d %s\n/* %s */\n" % (k, "\u00e9" * (k + 1), "filler line; } { \u4e2d " * (4000 + 300 * k)) \
                + c.wgsl
            bigs.append({"id": "big%d" % k, "source": src, "opt": {"fmt": True}, "inv": True})
        p, res = core.run_drive(binp, bigs * 3, "c16/bigthreads", threads=6, shuffle=5,
                                timeout=900,
                                extra_env={"PATH": os.path.dirname(real) + ":/usr/bin:/bin"})
        if p.returncode != 0 or len(res) != 3 * len(bigs):
            raise core.Inconclusive("threaded formatter run failed: %s" % p.stderr[-800:])
        want = {j["id"]: core.hash_hex(j["source"].encode("utf-8")) for j in bigs}
        srcs = {j["id"]: j["source"] for j in bigs}
        for r in res:
            if r.get("result") != "ok":
                continue
            n += 1
            s_ = [k for k in r.get("inv", {}).get("consts", []) if k["name"] == "SOURCE"]
            if not s_ or s_[0].get("str_sha") != want[r["id"]]:
                viol.append(Violation("source-mixed-up-between-threads", "fmt",
                                      "six formatter-on calls above the pipe buffer on six "
                                      "threads: SOURCE of %s is not its input (%s)" % (
                                          r["id"], "missing" if not s_ else "other text, %s bytes"
                                          % s_[0].get("str_len")),
                                      {"wgsl": srcs[r["id"]][:3000], "options": {"fmt": True}}))
    # build-script environment
    mdir = os.path.join(core.WORK, "c16", "crate dir")
    os.makedirs(mdir, exist_ok=True)
    env = {"CARGO_MANIFEST_DIR": mdir, "OUT_DIR": os.path.join(mdir, "target", "out"),
           "CARGO_PKG_NAME": "demo", "CARGO": "/bin/false", "PWD": mdir, "HOME": mdir}
    paths = [os.path.join(mdir, "shaders", "a.wgsl"), mdir + "//shaders/./b.wgsl",
             os.path.join(mdir, "target", "out", "c.wgsl"), mdir, mdir + "/",
             "/other/place/d.wgsl", mdir + "x/e.wgsl", "shaders/f.wgsl", "./g.wgsl",
             os.path.join(os.path.dirname(mdir), "h.wgsl")]
    # some of the named files exist, with OTHER content than the source handed in (the path is
    # an opaque string for the generator: it is neither read nor compared)
    for rel in ("shaders/a.wgsl", "shaders/f.wgsl", "g.wgsl"):
        os.makedirs(os.path.dirname(os.path.join(mdir, rel)), exist_ok=True)
        with open(os.path.join(mdir, rel), "w") as f:
            f.write("// stale copy on disk\n@compute @workgroup_size(1) fn old() {}\n")
    jobs = []
    for k, pth in enumerate(paths):
        c = cases[k % len(cases)]
        jobs.append({"id": "env%d" % k, "source": c.wgsl, "opt": {"fmt": bool(k % 2)},
                     "include_path": pth, "inv": True})
    p, res = core.run_drive(binp, jobs, "c16/env", timeout=600, cwd=mdir, extra_env=env)
    if p.returncode != 0 or len(res) != len(jobs):
        raise core.Inconclusive("environment run failed: %s" % p.stderr[-800:])
    by = {r["id"]: r for r in res}
    for j in jobs:
        r = by[j["id"]]
        if r.get("result") != "ok":
            continue
        n += 1
        src = [k for k in r.get("inv", {}).get("consts", []) if k["name"] == "SOURCE"]
        if not src or src[0].get("include_str") != j["include_path"]:
            viol.append(Violation("include-path", "build-script-environment",
                                  "with CARGO_MANIFEST_DIR=%r: SOURCE is %s, expected "
                                  "include_str! of exactly %r" % (
                                      mdir, src[0].get("include_str") if src else None,
                                      j["include_path"]),
                                  {"wgsl": j["source"], "include_path": j["include_path"],
                                   "options": j["opt"], "env": env}))
    return n
