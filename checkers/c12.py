"""C12 - override constants reach the pipeline under the right key and value.

Events (entry family): the HashMap returned by OverrideConstants::constants() for 8 assignments
per shader (extremes, None/Some), the maps carried by every vertex/fragment entry helper for the
same assignment, evaluated in the compiled module.  The struct literal in the probe names every
override with a typed literal (Option exactly when the WGSL declaration has a default), so a
wrong field set or type is a compile error of the probe.
Oracle: expected key/value set from the spec; naga's own override resolution
(`process_overrides`) must accept the recorded map and the resulting constants must equal the
supplied values; thorough: create_compute_pipeline on the real device.
"""
import struct as ps

from vlib import core, probes
from vlib.core import Violation


def hex_f64(h):
    return ps.unpack("<d", ps.pack("<Q", int(h, 16)))[0]


def main(tier, replay, t0):
    camp = probes.campaign("entry", tier)
    viol = []
    maps_n = 0
    nontrivial = set()
    samples = []
    jobs = []
    meta = {}
    cells = {}
    for c in camp.cases.values():
        if c.frontend_rejected or not c.spec.overrides:
            continue
        spec = c.spec
        for o in spec.overrides:
            cells[(o["ty"], o.get("id") is not None, o.get("default") is not None)] = 1
        for x in c.cfgs:
            base = {"case_id": c.id, "wgsl": c.wgsl, "options": x["opt"], "overrides": spec.overrides}
            g = c.gen[x["id"]]
            if g.get("result") not in ("ok", "err", "panic"):
                continue
            if g.get("result") != "ok":
                # naga accepts the shader (not frontend_rejected) and nothing in the entry
                # family is outside the documented support: a refusal leaves the user without
                # any constants struct for a valid override set
                why = g.get("err_kind") or (g.get("panic") or "panic").split(" @ ")[0][:60]
                viol.append(Violation("override-set-refused", str(why),
                                      "generation fails for a shader with a valid set of "
                                      "overrides: %s %s" % (why, g.get("display") or ""), base))
                continue
            if not camp.module_ok(c.id, x["id"]):
                bad = [d for d in probes.unexpected_rejection(camp, c.id, x["id"])
                       if any(k in (d.get("rendered") or d.get("message") or "") for k in
                              ("OverrideConstants", "constants", "overrides", "as f64",
                               "entries.insert")) or d.get("code") == "E0606"]
                if bad:
                    viol.append(Violation("override-code-does-not-compile", bad[0].get("code")
                                          or "?", "generated override handling is rejected by "
                                          "rustc: %s" % bad[0].get("message"),
                                          dict(base, rustc=[d["message"] for d in bad][:3])))
                continue
            ps_ = camp.probe_state(c.id, x["id"], "probe_c12")
            if not ps_ or not ps_["accepted"]:
                d = (ps_ or {}).get("diags") or [{}]
                viol.append(Violation("constants-struct-mismatch", d[0].get("code") or "probe",
                                      "OverrideConstants does not have one field per override of "
                                      "the matching type (optional iff defaulted), or an entry "
                                      "helper does not take it: %s" % d[0].get("message"),
                                      dict(base, rustc=[y.get("message") for y in d][:3])))
                continue
            evs = camp.ev(c.id, x["id"], "C12")
            recs = []
            for e in evs:
                if e["op"] == "map":
                    maps_n += 1
                    got = {k: hex_f64(v) for k, v in e["map"].items()}
                    want = {k: hex_f64(v) for k, v in e["expected"].items()}
                    rp = dict(base, variant=e["variant"], expected=want, observed=got)
                    if len(spec.overrides) >= 2:
                        nontrivial.add((c.id, e["variant"]))
                    if set(got) != set(want):
                        missing = sorted(set(want) - set(got))
                        extra = sorted(set(got) - set(want))
                        kinds = []
                        for o in spec.overrides:
                            key = str(o["id"]) if o.get("id") is not None else o["name"]
                            if key in missing or o["name"] in extra or key in extra:
                                kinds.append("%s%s" % ("id" if o.get("id") is not None else "name",
                                                       "+default" if o.get("default") is not None
                                                       else "+required"))
                        viol.append(Violation("map-keys", ",".join(sorted(set(kinds))) or "?",
                                              "constants() has keys %s, expected %s" % (
                                                  sorted(got), sorted(want)), rp))
                    else:
                        for k in want:
                            if ps.pack("<d", got[k]) != ps.pack("<d", want[k]):
                                viol.append(Violation("map-value", "value",
                                                      "constants()[%r] = %r, supplied %r" % (
                                                          k, got[k], want[k]), rp))
                                break
                    recs.append(e)
                elif e["op"] == "entry.map":
                    maps_n += 1
                    ref = [m for m in recs if m["variant"] == e["variant"]]
                    if ref and e["map"] != ref[-1]["map"]:
                        stage = [y.stage for y in spec.entries if y.name == e["entry"]]
                        viol.append(Violation("entry-helper-map", stage[0] if stage else "?",
                                              "%s_entry carries %s, constants() gives %s" % (
                                                  e["entry"], e["map"], ref[-1]["map"]),
                                              dict(base, variant=e["variant"])))
            if x is c.cfgs[0] and recs:
                jid = "%s|%s" % (c.id, x["id"])
                jobs.append({"id": jid, "wgsl": c.wgsl,
                             "overrides": [{"variant": m["variant"], "map": m["map"]}
                                           for m in recs]})
                meta[jid] = (c, x, recs)
            if len(samples) < 3 and recs:
                samples.append({"overrides": spec.overrides, "variant": recs[0]["variant"],
                                "map": {k: hex_f64(v) for k, v in recs[0]["map"].items()}})
    calls = 0
    for r in core.run_oracle("stage", jobs, "c12/stage"):
        if r.get("error"):
            raise core.Inconclusive("oracle: %s" % r["error"])
        c, x, recs = meta[r["id"]]
        by_variant = {m["variant"]: m for m in recs}
        for o in r.get("overrides", []):
            calls += 1
            m = by_variant[o["variant"]]
            want = {k: hex_f64(v) for k, v in m["expected"].items()}
            rp = {"case_id": c.id, "wgsl": c.wgsl, "options": x["opt"], "map": m["map"], "naga": o}
            if not o["ok"]:
                # naga refuses the map the generated code produced
                viol.append(Violation("naga-rejects-map", o["err"].split(":")[0][:40],
                                      "naga's override resolution rejects the map: %s" % o["err"],
                                      rp))
                continue
            for ov in c.spec.overrides:
                key = str(ov["id"]) if ov.get("id") is not None else ov["name"]
                if key in want:
                    seen = o["consts"].get(ov["name"])
                    w = want[key]
                    if ov["ty"] == "f32":
                        w = ps.unpack("<f", ps.pack("<f", w))[0]
                    if seen is None or float(seen) != float(w):
                        viol.append(Violation("value-not-seen-by-shader", ov["ty"],
                                              "override %s: supplied %r under key %r, shader "
                                              "compiler sees %r" % (ov["name"], w, key, seen), rp))
    dev = None
    if tier == "thorough":
        dev = device_replay(meta)
    inconclusive = []
    if maps_n < 50:
        inconclusive.append("only %d maps observed" % maps_n)
    core.finish("C12", tier, "exploration", t0, viol, {
        "evaluations": maps_n + calls, "distinct_nontrivial": len(nontrivial),
        "rule": "entry family: ~60%% of the shaders declare 1-5 overrides (bool/i32/u32/f32, with/"
                "without default, with/without @id, defaults depending on other overrides); 8 "
                "assignments each incl. 0, -1, extremes, None/Some; one evaluation = one map "
                "(constants() or an entry helper) or one process_overrides call; non-trivial = "
                "(shader with >= 2 overrides, assignment)",
        "samples": samples, "maps": maps_n, "process_overrides_calls": calls,
        "override_cells(ty,has_id,has_default)": sorted(map(str, cells)),
        "real_device": dev or "thorough only",
    }, inconclusive=inconclusive)


def device_replay(meta):
    jobs = []
    for jid, (c, x, recs) in meta.items():
        comp = [e for e in c.spec.entries if e.stage == "compute"]
        if not comp:
            continue
        jobs.append({"id": jid, "wgsl": c.wgsl, "groups": [[
            {"binding": 0, "visibility": "VERTEX | FRAGMENT | COMPUTE",
             "ty": {"Buffer": {"ty": {"Storage": {"read_only": False}},
                               "has_dynamic_offset": False, "min_binding_size": None}},
             "count": None}]], "push_constant_ranges": [],
            "compute": [{"entry": comp[0].name, "constants": m["map"]} for m in recs[:4]]})
    try:
        res = core.run_oracle("device", jobs, "c12/device", timeout=420, partial_ok=True)
    except core.Inconclusive as ex:
        return {"status": "unavailable", "why": str(ex)[:200]}
    out = {"status": "used", "pipelines": 0, "ok": 0, "errors": {}}
    for r in res[1:]:
        for call in r.get("calls", []):
            if call["call"] == "create_compute_pipeline":
                out["pipelines"] += 1
                if call["ok"]:
                    out["ok"] += 1
                else:
                    k = call["err"].strip().splitlines()[-1][:90]
                    out["errors"][k] = out["errors"].get(k, 0) + 1
    return out
