"""C04 - named bind group fields reach their own slot; groups bind at their own index.

Events: the call log of the shadow device / passes while the probe driver builds every group
from a struct literal naming exactly the WGSL variables (unique resource id per field), sets it
alone / through set_bind_groups / through BindGroups::set on compute passes, render passes and
render bundle encoders, and creates the pipeline layout.
Oracle: reference map field -> (@group, @binding) from the workload generator; exactly-once and
conservation checks over the call log.
"""
import json

from vlib import core, probes
from vlib.core import Violation


def entries_key(entries):
    return sorted(json.dumps(e, sort_keys=True) for e in entries)


def layout_class_mismatch(entries, spec, group):
    """(class, text) if a layout entry's resource class contradicts the WGSL declaration at
    that (@group, @binding): buffer vs texture vs sampler, uniform vs storage, read-only-ness"""
    by = {gl.binding: gl for gl in spec.globals if gl.is_resource() and str(gl.group) == group}
    for en in entries:
        gl = by.get(en["binding"])
        if gl is None:
            continue
        ty = en["ty"]
        if gl.kind == "buffer":
            if "Buffer" not in ty:
                return ("buffer", "%s is a buffer, layout entry is %s" % (gl.name, list(ty)))
            bt = ty["Buffer"]["ty"]
            if gl.space == "uniform" and bt != "Uniform":
                return ("uniform", "%s is var<uniform>, layout says %s" % (gl.name, bt))
            if gl.space == "storage":
                if not (isinstance(bt, dict) and "Storage" in bt):
                    return ("storage", "%s is var<storage>, layout says %s" % (gl.name, bt))
                ro = bt["Storage"]["read_only"]
                if ro != (gl.access != "read_write"):
                    return ("read-only-ness", "%s is %s, layout read_only=%s" % (
                        gl.name, gl.access, ro))
        elif gl.kind == "texture":
            if "Texture" not in ty and "StorageTexture" not in ty:
                return ("texture", "%s is a texture, layout entry is %s" % (gl.name, list(ty)))
        elif gl.kind == "sampler":
            if "Sampler" not in ty:
                return ("sampler", "%s is a sampler, layout entry is %s" % (gl.name, list(ty)))
    return None


def main(tier, replay, t0):
    camp = probes.campaign("bind", tier)
    viol = []
    groups_built = 0
    set_events = 0
    route_cells = {}
    nontrivial = set()
    lost = 0
    samples = []
    evals = 0
    for c in camp.cases.values():
        if c.frontend_rejected or not c.truth["groups"]:
            continue
        x = c.cfgs[0]
        if x.get("must_decline") and c.gen[x["id"]].get("result") == "ok":
            viol.append(Violation("numbering-defect-accepted", str(x.get("expect_decline")),
                                  "the shader's group/binding numbering is defective (%s) and a "
                                  "module was generated anyway: groups cannot bind at their own "
                                  "index / slots are merged" % x.get("expect_decline"),
                                  {"case_id": c.id, "wgsl": c.wgsl, "options": x["opt"]}))
            continue
        if c.gen[x["id"]].get("result") != "ok":
            v = probes.refusal_violation(c, x, "bind group type")
            if v:
                viol.append(v)
            continue
        if not camp.module_ok(c.id, x["id"]):
            lost += 1
            bad = [d for d in probes.unexpected_rejection(camp, c.id, x["id"])
                   if any(k in (d.get("rendered") or d.get("message") or "") for k in
                          ("bindings.", "BindGroupEntry", "from_bindings", "BindGroupLayout",
                           "set_bind_group", "LAYOUT_DESCRIPTOR", "BindGroups"))]
            if bad:
                viol.append(Violation("bind-group-code-does-not-compile", bad[0].get("code") or "?",
                                      "the module's bind group code is rejected by rustc: %s" %
                                      bad[0].get("message"),
                                      {"case_id": c.id, "wgsl": c.wgsl, "options": x["opt"],
                                       "rustc": [d.get("message") for d in bad][:3]}))
            continue
        base = {"case_id": c.id, "wgsl": c.wgsl, "options": x["opt"]}
        ps = camp.probe_state(c.id, x["id"], "probe_c04")
        if not ps or not ps["accepted"]:
            d = (ps or {}).get("diags") or [{}]
            viol.append(Violation("surface-mismatch", d[0].get("code") or "probe_c04",
                                  "the bind group surface the property names does not type-check "
                                  "against the WGSL declarations (one field per variable, named "
                                  "after it, typed by kind): %s" % d[0].get("message"),
                                  dict(base, rustc=d[:3])))
            continue
        evs = camp.ev(c.id, x["id"], "C04")
        if any(e["op"] == "probe.end" and e.get("panicked") for e in evs):
            viol.append(Violation("probe-panicked", "run", "generated code panicked while "
                                  "building/setting bind groups", base))
            continue
        gave = {}
        gave_range = {}
        for e in evs:
            if e["op"] == "gave":
                gave[(str(e["group"]), e["field"])] = e
            elif e["op"] == "gave.range":
                gave_range[(str(e["group"]), e["field"])] = e
        layouts = {}
        for b, inside in probes.bracketed(evs, "layout.begin", "layout.end"):
            for e in inside:
                if e["op"] == "dev.create_bind_group_layout":
                    layouts[str(b["group"])] = e
        bg_id = {}
        t = c.truth["groups"]
        for b, inside in probes.bracketed(evs, "from_bindings.begin", "from_bindings.end"):
            g = str(b["group"])
            groups_built += 1
            evals += 1
            rp = dict(base, group=g, expected={bb: v for bb, v in t[g].items()})
            cbg = [e for e in inside if e["op"] == "dev.create_bind_group"]
            cbl = {e["id"]: e for e in inside if e["op"] == "dev.create_bind_group_layout"}
            if len(cbg) != 1:
                viol.append(Violation("create-bind-group-count", str(len(cbg)),
                                      "from_bindings made %d create_bind_group calls" % len(cbg),
                                      rp))
                continue
            bg = cbg[0]
            bg_id[g] = bg["id"]
            rp["observed"] = bg["entries"]
            want = {int(bb): v for bb, v in t[g].items()}
            seen = {}
            for en in bg["entries"]:
                seen.setdefault(en["binding"], []).append(en)
            bs = sorted(want)
            if bs != list(range(len(bs))):
                nontrivial.add((c.id, g))
            decl_order = [gl.binding for gl in c.spec.globals if gl.is_resource()
                          and str(gl.group) == g]
            if decl_order != sorted(decl_order):
                nontrivial.add((c.id, g))
            if sorted(seen) != sorted(want) or any(len(v) != 1 for v in seen.values()):
                viol.append(Violation("binding-set-mismatch", "group",
                                      "group %s supplies bindings %s, layout/WGSL has %s" % (
                                          g, sorted(en["binding"] for en in bg["entries"]),
                                          sorted(want)), rp))
                continue
            for bnum, info in want.items():
                en = seen[bnum][0]
                gv = gave.get((g, info["name"]))
                if gv is None:
                    continue
                if en["res_id"] != gv["res_id"]:
                    other = [k for k, v in gave.items() if v["res_id"] == en["res_id"]]
                    viol.append(Violation("wrong-resource-at-binding", info["kind"],
                                          "@binding(%d) of group %s received the value given in "
                                          "field %s instead of field %s" % (
                                              bnum, g, other[:1], info["name"]), rp))
                elif en["kind"] != info["kind"]:
                    viol.append(Violation("wrong-resource-kind", info["kind"],
                                          "binding %d carries a %s, variable is a %s" % (
                                              bnum, en["kind"], info["kind"]), rp))
                elif info["kind"] == "buffer" and (g, info["name"]) in gave_range:
                    gr = gave_range[(g, info["name"])]
                    if en.get("offset") != gr["offset"] or en.get("size") != gr["size"]:
                        viol.append(Violation("buffer-range-altered", "offset/size",
                                              "field %s was given offset %s size %s; the bind "
                                              "group entry has offset %s size %s" % (
                                                  info["name"], gr["offset"], gr["size"],
                                                  en.get("offset"), en.get("size")), rp))
            lay = cbl.get(bg["layout_id"])
            if lay is None:
                viol.append(Violation("layout-not-own", "group", "bind group %s was created with "
                                      "a layout object not created by from_bindings" % g, rp))
            elif g in layouts and entries_key(lay["entries"]) != entries_key(
                    layouts[g]["entries"]):
                viol.append(Violation("layout-differs", "group", "from_bindings of group %s used "
                                      "a layout different from get_bind_group_layout" % g, rp))
            elif layout_class_mismatch(lay["entries"], c.spec, g):
                viol.append(Violation("layout-not-of-this-group", layout_class_mismatch(
                    lay["entries"], c.spec, g)[0], "the layout used for group %s does not "
                    "describe that group's variables: %s" % (g, layout_class_mismatch(
                        lay["entries"], c.spec, g)[1]), rp))
            elif sorted(e["binding"] for e in lay["entries"]) != sorted(want):
                viol.append(Violation("layout-binding-set", "group",
                                      "layout of group %s has bindings %s, WGSL declares %s" % (
                                          g, sorted(e["binding"] for e in lay["entries"]),
                                          sorted(want)), rp))
        all_groups = sorted(t, key=int)
        for b, inside in probes.bracketed(evs, "route.begin", "route.end"):
            sets = [e for e in inside if e["op"] == "pass.set_bind_group"]
            set_events += len(sets)
            evals += 1
            route_cells[(b["route"], b["pass_kind"])] = route_cells.get(
                (b["route"], b["pass_kind"]), 0) + 1
            got = sorted((e["index"], e["bind_group_id"]) for e in sets)
            if b["route"] == "single":
                want = [(int(b["group"]), bg_id.get(str(b["group"])))]
            else:
                want = sorted((int(g), bg_id.get(g)) for g in all_groups)
            rp = dict(base, route=b["route"], pass_kind=b["pass_kind"], expected=want,
                      observed=got)
            if any(e["pass_id"] != b["pass_id"] or e["pass_kind"] != b["pass_kind"]
                   for e in sets):
                viol.append(Violation("set-on-other-pass", b["route"], "set on another pass", rp))
            elif got != want:
                viol.append(Violation("set-index-mismatch", b["route"] + "/" + b["pass_kind"],
                                      "route %s on a %s pass bound %s, expected %s" % (
                                          b["route"], b["pass_kind"], got, want), rp))
            else:
                for e in sets:
                    lay = layouts.get(str(e["index"]))
                    ndyn = 0
                    if lay:
                        for le in lay["entries"]:
                            bt = le["ty"].get("Buffer") if isinstance(le["ty"], dict) else None
                            if bt and bt.get("has_dynamic_offset"):
                                ndyn += 1
                    if len(e["offsets"]) != ndyn:
                        viol.append(Violation("dynamic-offset-count", b["route"],
                                              "group %s is set with %d dynamic offsets, its "
                                              "layout declares %d dynamic buffers" % (
                                                  e["index"], len(e["offsets"]), ndyn), rp))
                        break
        for b, inside in probes.bracketed(evs, "pl.begin", "pl.end"):
            evals += 1
            pl = [e for e in inside if e["op"] == "dev.create_pipeline_layout"]
            ls = {e["id"]: e for e in inside if e["op"] == "dev.create_bind_group_layout"}
            rp = dict(base, groups=all_groups)
            if len(pl) != 1:
                viol.append(Violation("pipeline-layout-count", str(len(pl)), "create_pipeline_"
                                      "layout called %d times" % len(pl), rp))
                continue
            ids = pl[0]["bgl_ids"]
            if len(ids) != len(all_groups):
                viol.append(Violation("pipeline-layout-arity", "n", "pipeline layout lists %d "
                                      "group layouts, shader has %d groups" % (
                                          len(ids), len(all_groups)), rp))
                continue
            for i, lid in enumerate(ids):
                le = ls.get(lid)
                if le is None or str(i) not in layouts or \
                        entries_key(le["entries"]) != entries_key(layouts[str(i)]["entries"]):
                    viol.append(Violation("pipeline-layout-order", "index%d" % min(i, 3),
                                          "slot %d of the pipeline layout is not the layout of "
                                          "group %d" % (i, i), rp))
                    break
        if len(samples) < 3 and len(all_groups) >= 2:
            samples.append({"case": c.id, "groups": {g: {b: v["name"] for b, v in t[g].items()}
                                                     for g in all_groups},
                            "bind_group_ids": bg_id})
    inconclusive, ndecl = probes.decline_guard(camp, camp.cases.values())
    if len(route_cells) < 9:
        inconclusive.append("only %d of 9 route x pass-kind cells observed" % len(route_cells))
    core.finish("C04", tier, "exploration", t0, viol, {
        "evaluations": evals, "distinct_nontrivial": len(nontrivial),
        "rule": "bind family shaders (1-8 groups, 1-5 bindings per group, dense/shuffled/sparse/"
                "huge binding indices, declaration order shuffled); one evaluation = one "
                "from_bindings call, one set route on one pass kind, or one pipeline layout; "
                "non-trivial = group whose binding indices are sparse or whose declaration order "
                "differs from index order",
        "samples": samples, "bind_groups_built": groups_built, "set_events": set_events,
        "routes_x_pass_kinds": {"%s/%s" % k: v for k, v in sorted(route_cells.items())},
        "cases_lost_to_compile_errors": lost, "cases_declined_by_tool": ndecl,
        "campaign": camp.stats,
    }, assumptions=["dynamic offsets are never generated by the tool and not exercised"],
        inconclusive=inconclusive)
