"""C07 - vertex buffer layouts mirror the vertex input structs.

Events (entry family x 4 option sets): VERTEX_ATTRIBUTES, vertex_buffer_layout(step) for both
step modes and <entry>_entry(steps..).buffers for several step assignments, all evaluated in
the compiled module, plus offset_of!/size_of of the same structs taken by the probe.
Oracle: @location members and formats from the spec; the probe's own offsets/sizes; wgpu's
vertex-buffer rules (transcribed from wgpu-core create_render_pipeline); real wgpu-core
`check_stage` for the vertex stage with those attributes as inputs; replay of
create_render_pipeline on the real device.
"""
from vlib import core, probes
from vlib.core import Violation
from gen import wtypes as W

FMT_JSON = {}
for _k, _v in W.VERTEX_FORMAT.items():
    FMT_JSON[_v] = _v  # serde names equal the variant names for wgt::VertexFormat


def main(tier, replay, t0):
    camp = probes.campaign("entry", tier)
    viol = []
    attrs_n = 0
    entries_n = 0
    nontrivial = set()
    samples = []
    lost = 0
    stage_jobs = []
    stage_meta = {}
    dev_jobs = []
    for c in camp.cases.values():
        if c.frontend_rejected:
            continue
        spec = c.spec
        vstructs = probes.vertex_structs(spec)
        if not vstructs:
            continue
        for x in c.cfgs:
            if c.gen[x["id"]].get("result") != "ok":
                v = probes.refusal_violation(c, x, "vertex buffer layout")
                if v:
                    viol.append(v)
                continue
            base = {"case_id": c.id, "wgsl": c.wgsl, "options": x["opt"]}
            if not camp.module_ok(c.id, x["id"]):
                lost += 1
                diags = camp.rustc.get("%s/%s/m.rs" % (c.id, x["id"]), {}).get("diags", [])
                dup = [d for d in diags if d.get("code") in ("E0592", "E0201", "E0428")]
                if dup:
                    viol.append(Violation("duplicate-vertex-impl", dup[0]["code"],
                                          "module does not compile: %s" % dup[0]["message"],
                                          dict(base, rustc=[d["message"] for d in dup][:3])))
                    continue
                import re as _re
                consts_ok = {"ENTRY_" + e_.name.upper() for e_ in spec.entries}
                wrong_ref = []
                for d in probes.unexpected_rejection(camp, c.id, x["id"]):
                    m_ = _re.search(r"cannot find value `(ENTRY_[^`]+)`", d.get("message") or "")
                    if m_ and m_.group(1) not in consts_ok and any(
                            e_.stage == "vertex" and e_.name.upper().replace("_", "") ==
                            m_.group(1)[6:].replace("_", "") for e_ in spec.entries):
                        wrong_ref.append(d)
                if wrong_ref:
                    viol.append(Violation("vertex-helper-names-missing-constant", "E0425",
                                          "a vertex entry helper refers to %s, which the module "
                                          "does not define" % wrong_ref[0].get("message"),
                                          dict(base, rustc=[d["message"] for d in wrong_ref][:3])))
                    continue
                bad = [d for d in probes.unexpected_rejection(camp, c.id, x["id"])
                       if any(k in (d.get("rendered") or d.get("message") or "") for k in
                              ("VertexEntry", "VertexBufferLayout", "VERTEX_ATTRIBUTES",
                               "vertex_buffer_layout", "VertexStepMode",
                               "offset: std::mem::offset_of!", "offset : std :: mem :: offset_of !",
                               "shader_location"))
                       or ("ENTRY_" in (d.get("rendered") or d.get("message") or "") and
                           "_entry" in (d.get("rendered") or ""))]
                if bad:
                    viol.append(Violation("vertex-helpers-do-not-compile", bad[0].get("code")
                                          or "?", "the module's vertex helpers are rejected by "
                                          "rustc: %s" % bad[0].get("message"),
                                          dict(base, rustc=[d["message"] for d in bad][:3])))
                continue
            ps = camp.probe_state(c.id, x["id"], "probe_c07")
            if not ps or not ps["accepted"]:
                d = (ps or {}).get("diags") or [{}]
                viol.append(Violation("vertex-surface-mismatch", d[0].get("code") or "probe",
                                      "VERTEX_ATTRIBUTES / vertex_buffer_layout / <entry>_entry "
                                      "do not exist with the shape the property names: %s" %
                                      d[0].get("message"), dict(base, rustc=d[:2])))
                continue
            evs = camp.ev(c.id, x["id"], "C07")
            st = {e["struct"]: e for e in evs if e["op"] == "struct"}
            lay = {}
            for e in evs:
                if e["op"] == "layout":
                    lay[(e["struct"], e["step_given"])] = e
            want_attrs = {}
            for s in vstructs:
                sd = spec.structs[s]
                e = st.get(s)
                rp = dict(base, struct=sd.wgsl())
                if e is None:
                    viol.append(Violation("no-attribute-table", "struct", "no VERTEX_ATTRIBUTES "
                                          "event for %s" % s, rp))
                    continue
                offs = {o["field"]: o["offset"] for o in e["offsets"]}
                want = []
                for m in sd.members:
                    if m.get("location") is None:
                        continue
                    want.append({"format": W.vertex_format(m["ty"]), "offset": offs[m["name"]],
                                 "location": m["location"]})
                want_attrs[s] = (want, e["size"])
                got = e["attributes"]
                attrs_n += len(got)
                rp.update(expected=want, observed=got)
                if any(m.get("builtin") for m in sd.members) or len(want) >= 3:
                    nontrivial.add((c.id, s, x["id"]))
                key = lambda a: (a["location"], a["format"], a["offset"])
                if sorted(map(key, got)) != sorted(map(key, want)):
                    gl = sorted(a["location"] for a in got)
                    wl = sorted(a["location"] for a in want)
                    if gl != wl:
                        rule = "attribute-locations"
                    elif sorted((a["location"], a["format"]) for a in got) != \
                            sorted((a["location"], a["format"]) for a in want):
                        rule = "attribute-format"
                    else:
                        rule = "attribute-offset"
                    viol.append(Violation(rule, x["opt"].get("mv", "rust"),
                                          "attributes of %s: %s, expected %s" % (s, got, want), rp))
                for step in ("Vertex", "Instance"):
                    l = lay.get((s, step))
                    if l is None:
                        continue
                    if l["step"] != step:
                        viol.append(Violation("layout-step", step, "vertex_buffer_layout(%s) of "
                                              "%s has step %s" % (step, s, l["step"]), rp))
                    if l["stride"] != e["size"]:
                        viol.append(Violation("layout-stride", x["opt"].get("mv", "rust"),
                                              "stride %d != size_of::<%s>() = %d" % (
                                                  l["stride"], s, e["size"]), rp))
                    if l["attributes"] != got:
                        viol.append(Violation("layout-attributes", "table", "layout of %s does "
                                              "not carry VERTEX_ATTRIBUTES" % s, rp))
            # entries
            for e in spec.entries:
                if e.stage != "vertex":
                    continue
                sp = [p["struct"] for p in e.params if p.get("struct")]
                for ev in evs:
                    if ev["op"] != "entry" or ev["entry"] != e.name:
                        continue
                    entries_n += 1
                    rp = dict(base, entry=e.name, struct_params=sp, given=ev["given"],
                              buffers=ev["buffers"])
                    if len(sp) >= 2:
                        nontrivial.add((c.id, e.name, x["id"]))
                    if len(ev["buffers"]) != len(sp):
                        viol.append(Violation("entry-buffer-count", "n=%d" % len(sp),
                                              "%s takes %d input structs, helper yields %d "
                                              "buffers" % (e.name, len(sp), len(ev["buffers"])),
                                              rp))
                        continue
                    for i, (s, b) in enumerate(zip(sp, ev["buffers"])):
                        if s not in want_attrs:
                            continue
                        want, size = want_attrs[s]
                        key = lambda a: (a["location"], a["format"], a["offset"])
                        if sorted(map(key, b["attributes"])) != sorted(map(key, want)) or \
                                b["stride"] != size:
                            viol.append(Violation("entry-buffer-order", "n=%d" % len(sp),
                                                  "buffer %d of %s is not the layout of parameter "
                                                  "%d (%s)" % (i, e.name, i, s), rp))
                            break
                        if b["step"] != ev["given"][i]:
                            viol.append(Violation("entry-step-mode", "n=%d" % len(sp),
                                                  "buffer %d of %s (struct %s) has step %s, the "
                                                  "caller passed %s for that parameter" % (
                                                      i, e.name, s, b["step"], ev["given"][i]),
                                                  rp))
                            break
                    # wgpu's own vertex buffer rules on the last pattern
                    declared = {m["location"] for s_ in sp
                                for m in spec.structs[s_].members if m.get("location") is not None}
                    why = vertex_rules(ev["buffers"], declared)
                    if why:
                        f64 = any("64" in a["format"] for b in ev["buffers"]
                                  for a in b["attributes"])
                        viol.append(Violation("vertex-buffer-rule", why[0] + (":f64" if f64 else ""),
                                              "wgpu rejects these vertex buffers for %s: %s" % (
                                                  e.name, why[1]), rp))
                # check_stage with the attributes as inputs (once per entry)
                last = [ev for ev in evs if ev["op"] == "entry" and ev["entry"] == e.name]
                if last:
                    vin = [[a["location"], a["format"]] for b in last[-1]["buffers"]
                           for a in b["attributes"]]
                    jid = "%s|%s|%s" % (c.id, x["id"], e.name)
                    stage_jobs.append({"id": jid, "wgsl": c.wgsl, "groups": [
                        [{"binding": 0, "visibility": "VERTEX | FRAGMENT | COMPUTE", "ty": {
                            "Buffer": {"ty": {"Storage": {"read_only": False}},
                                       "has_dynamic_offset": False, "min_binding_size": None}},
                          "count": None}]], "vertex_inputs": {e.name: vin}})
                    stage_meta[jid] = (c, x, e, last[-1])
                    if x is c.cfgs[0] and not any(
                            m.get("location", 0) is not None and (m.get("location") or 0) >= 16
                            for s_ in sp for m in spec.structs[s_].members):
                        dev_jobs.append((jid, c, e, last[-1]))
            if len(samples) < 3 and st:
                s0 = sorted(st)[0]
                samples.append({"struct": spec.structs[s0].wgsl(), "options": x["opt"],
                                "attributes": st[s0]["attributes"], "size": st[s0]["size"]})
    stage_calls = 0
    for r in core.run_oracle("stage", stage_jobs, "c07/stage"):
        if r.get("error") or r.get("harness_error"):
            raise core.Inconclusive("oracle: %s" % (r.get("error") or r.get("harness_error")))
        c, x, e, ev = stage_meta[r["id"]]
        for cs in r.get("check_stage", []):
            if cs["entry"] != e.name or cs["stage"] != "vertex":
                continue
            stage_calls += 1
            if not cs["ok"] and cs["kind"] == "input":
                viol.append(Violation("check-stage-input", "vertex",
                                      "wgpu-core vertex input validation fails for %s: %s" % (
                                          e.name, cs["err"]),
                                      {"case_id": c.id, "wgsl": c.wgsl, "options": x["opt"], "buffers": ev["buffers"],
                                       "check_stage": cs}))
    dev = device_replay(dev_jobs)
    inconclusive, ndecl = probes.decline_guard(camp, camp.cases.values())
    core.finish("C07", tier, "exploration", t0, viol, {
        "evaluations": attrs_n + entries_n + stage_calls, "distinct_nontrivial": len(nontrivial),
        "rule": "entry family x {(rust, bytemuck vertex), (glam), (glam, bytemuck vertex, "
                "encase), (nalgebra, bytemuck vertex)}: vertex input structs with f32/i32/u32/"
                "f64 scalars and vec2-4 at arbitrary locations < 16, builtins interleaved, "
                "builtin-only structs, 0-3 structs per entry, structs shared by entries; one "
                "evaluation = one attribute, one <entry>_entry call or one check_stage call; "
                "non-trivial = struct with builtins or >= 3 attributes, entry with >= 2 structs",
        "samples": samples, "attributes": attrs_n, "entry_calls": entries_n,
        "check_stage_calls": stage_calls, "real_device": dev,
        "modules_lost_to_compile_errors": lost, "cases_declined_by_tool": ndecl,
    }, assumptions=[
        "attribute offsets are compared with offset_of! taken by the probe in the same "
        "compiled module (so representation-dependent alignment is accounted for)",
        "64-bit vertex formats need VERTEX_ATTRIBUTE_64BIT: assumed present on the model "
        "device, not attributable on the real one"], inconclusive=inconclusive)


def vertex_rules(buffers, declared=()):
    """wgpu-core 24.0.5 create_render_pipeline vertex buffer validation, transcribed, with the
    default limits (max_vertex_buffers 8, stride 2048, attributes 16)"""
    if len(buffers) > 8:
        return ("too-many-buffers", "%d buffers" % len(buffers))
    seen = set()
    total = 0
    for i, b in enumerate(buffers):
        stride = b["stride"]
        if stride > 2048:
            return ("stride-limit", "buffer %d stride %d > 2048" % (i, stride))
        if stride % 4:
            return ("stride-alignment", "buffer %d stride %d not a multiple of 4" % (i, stride))
        for a in b["attributes"]:
            size = W.vertex_format_size(a["format"])
            total += 1
            end = a["offset"] + size
            if stride == 0:
                if end > 2048:
                    return ("attribute-end", "attribute ends at %d" % end)
            elif end > stride:
                return ("attribute-beyond-stride", "attribute at %d size %d ends beyond stride "
                        "%d" % (a["offset"], size, stride))
            if a["offset"] % min(4, size):
                return ("attribute-offset-alignment", "offset %d" % a["offset"])
            if a["location"] >= 16 and a["location"] not in declared:
                # (a location the SHADER declares beyond the device limit is the shader's
                # business, not the tool's)
                return ("location-limit", "location %d" % a["location"])
            if a["location"] in seen:
                return ("location-clash", "location %d used twice" % a["location"])
            seen.add(a["location"])
    if total > 16:
        return ("too-many-attributes", "%d attributes" % total)
    return None


def device_replay(dev_jobs):
    jobs = []
    for jid, c, e, ev in dev_jobs:
        if c.spec.overrides:
            continue  # required overrides need values: C12's replay
        jobs.append({"id": jid, "wgsl": c.wgsl, "groups": [[
            {"binding": 0, "visibility": "VERTEX | FRAGMENT | COMPUTE",
             "ty": {"Buffer": {"ty": {"Storage": {"read_only": False}},
                               "has_dynamic_offset": False, "min_binding_size": None}},
             "count": None}]], "push_constant_ranges": [],
            "render": [{"entry": e.name, "constants": {}, "buffers": ev["buffers"]}]})
    try:
        res = core.run_oracle("device", jobs, "c07/device", timeout=420, partial_ok=True)
    except core.Inconclusive as ex:
        return {"status": "unavailable", "why": str(ex)[:200]}
    if not res or res[0].get("adapter") is None:
        return {"status": "unavailable"}
    out = {"status": "used", "adapter": res[0].get("adapter"), "render_pipelines": 0, "ok": 0,
           "errors": {}}
    for r in res[1:]:
        for call in r["calls"]:
            if call["call"] != "create_render_pipeline":
                continue
            out["render_pipelines"] += 1
            if call["ok"]:
                out["ok"] += 1
            else:
                k = call["err"].strip().splitlines()[-1][:90]
                out["errors"][k] = out["errors"].get(k, 0) + 1
    return out
