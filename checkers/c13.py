"""C13 - push constant range covers the variable, from offset 0, once.

Events: the PipelineLayoutDescriptor recorded by the shadow device when the generated
create_pipeline_layout runs; the value of PUSH_CONSTANT_STAGES; the public-item inventory
(presence/absence of the constant).
Oracle: WGSL size of the variable's type from the independent layout calculator; stage set
known by construction (fallback: all entry stages).
"""
from vlib import core, probes
from vlib.core import Violation
from gen import wtypes as W


def main(tier, replay, t0):
    camp = probes.campaign("bind", tier)
    viol = []
    evals = 0
    nontrivial = set()
    type_cells = {}
    with_push = without = 0
    samples = []
    lost = 0
    for c in camp.cases.values():
        if c.frontend_rejected:
            continue
        x = c.cfgs[0]
        g = c.gen[x["id"]]
        if g.get("result") != "ok":
            v = probes.refusal_violation(c, x, "push constant range")
            if v and c.truth["push"]:
                viol.append(v)
            continue
        base = {"case_id": c.id, "wgsl": c.wgsl, "options": x["opt"]}
        p = c.truth["push"]
        inv = g.get("inv", {})
        has_const = any(k["name"] == "PUSH_CONSTANT_STAGES" for k in inv.get("consts", []))
        evals += 1
        if p is None and has_const:
            viol.append(Violation("constant-without-variable", "PUSH_CONSTANT_STAGES",
                                  "module exports PUSH_CONSTANT_STAGES although the shader has no "
                                  "push constant", base))
        if not camp.module_ok(c.id, x["id"]):
            lost += 1
            continue
        ps = camp.probe_state(c.id, x["id"], "probe_c13")
        if not ps or not ps["accepted"]:
            d = (ps or {}).get("diags") or [{}]
            viol.append(Violation("surface-missing", d[0].get("code") or "probe_c13",
                                  "create_pipeline_layout / PUSH_CONSTANT_STAGES not usable: %s"
                                  % d[0].get("message"), dict(base, rustc=d[:2])))
            continue
        evs = camp.ev(c.id, x["id"], "C13")
        pl = [e for e in evs if e["op"] == "dev.create_pipeline_layout"]
        if len(pl) != 1:
            viol.append(Violation("pipeline-layout-count", str(len(pl)), "expected one "
                                  "create_pipeline_layout call", base))
            continue
        ranges = pl[0]["push_constant_ranges"]
        rp = dict(base, observed=ranges, expected=p)
        if p is None:
            without += 1
            if ranges:
                viol.append(Violation("range-without-variable", "n=%d" % len(ranges),
                                      "pipeline layout has push constant ranges but the shader "
                                      "declares no push constant", rp))
            continue
        with_push += 1
        pg = [gl for gl in c.spec.globals if gl.kind == "push"][0]
        type_cells[pg.ty[0] + ("+pad" if pg.ty[0] == "st" else "")] = 1
        nontrivial.add(c.wgsl)
        if len(ranges) != 1:
            viol.append(Violation("range-count", "n=%d" % len(ranges), "expected exactly one "
                                  "push constant range, got %d" % len(ranges), rp))
            continue
        r = ranges[0]
        if r["start"] != 0:
            viol.append(Violation("range-start", str(r["start"]), "range starts at %d" %
                                  r["start"], rp))
        if r["end"] != p["size"]:
            viol.append(Violation("range-length", W.wgsl(pg.ty)[:24],
                                  "range is 0..%d, WGSL size of %s is %d" % (
                                      r["end"], W.wgsl(pg.ty), p["size"]), rp))
        if r["end"] % 4:
            viol.append(Violation("range-not-multiple-of-4", str(r["end"]), "length %d" %
                                  r["end"], rp))
        st = [e for e in evs if e["op"] == "push.stages"]
        if st and st[0]["bits"] != r["stages"]:
            viol.append(Violation("constant-differs-from-range", "stages",
                                  "PUSH_CONSTANT_STAGES=%s but the range has %s" % (
                                      probes.stage_names(st[0]["bits"]),
                                      probes.stage_names(r["stages"])), rp))
        if r["stages"] != p["stages"]:
            viol.append(Violation("stages-used" if p["used"] else "stages-fallback",
                                  probes.stage_names(r["stages"] ^ p["stages"]),
                                  "range stages %s; variable %s => expected %s" % (
                                      probes.stage_names(r["stages"]),
                                      "used" if p["used"] else "unused (fallback: entry stages)",
                                      probes.stage_names(p["stages"])), rp))
        if len(samples) < 4:
            samples.append({"case": c.id, "type": W.wgsl(pg.ty), "expected": p, "observed": r})
    inconclusive, ndecl = probes.decline_guard(camp, camp.cases.values())
    if with_push < 10 or without < 10:
        inconclusive.append("too few cases: %d with, %d without push constant" % (
            with_push, without))
    core.finish("C13", tier, "exploration", t0, viol, {
        "evaluations": evals, "distinct_nontrivial": len(nontrivial),
        "rule": "bind family: ~40%% of the shaders declare a push constant (scalar, vec2-4, "
                "matrices, arrays of vec3/vec4/u32, padded structs; <= 128 bytes) used by none / "
                "one / several stages directly or through helpers; non-trivial = distinct shader "
                "with a push constant",
        "samples": samples, "with_push_constant": with_push, "without": without,
        "type_cells": sorted(type_cells), "cases_lost_to_compile_errors": lost,
        "cases_declined_by_tool": ndecl, "campaign": camp.stats,
    }, inconclusive=inconclusive)
