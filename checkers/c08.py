"""C08 - exactly the host-visible structs are emitted, once each.

Events: the set (with multiplicity) of top-level `pub struct` items of the returned module
(syn inventory taken by the driver), for every option set.
Oracle: the reachability closure computed from the spec: structs reachable from the type of a
module-scope variable, plus entry-point parameter structs that are not an entry-point result.
"""
from vlib import core, probes
from vlib.core import Violation


def main(tier, replay, t0):
    viol = []
    evals = 0
    nontrivial = set()
    role_cells = {}
    samples = []
    expected_total = 0
    for fam in ("struct", "entry", "bind"):
        camp = probes.campaign(fam, tier)
        for c in camp.cases.values():
            if c.frontend_rejected:
                continue
            spec = c.spec
            want = sorted(spec.emitted_structs())
            host = set(spec.host_structs())
            params = {p["struct"] for e in spec.entries for p in e.params if p.get("struct")}
            results = {e.result["struct"] for e in spec.entries
                       if e.result and e.result["kind"] == "struct"}
            for s in spec.structs:
                role = ("host" if s in host else "") + ("+param" if s in params else "") + \
                    ("+result" if s in results else "")
                role_cells[role or "unused/local"] = role_cells.get(role or "unused/local", 0) + 1
            for x in c.cfgs:
                g = c.gen[x["id"]]
                if g.get("result") != "ok" or "inv" not in g:
                    continue
                evals += 1
                got = sorted(s["name"] for s in g["inv"].get("structs", []) if s["pub"])
                got = [s for s in got if s not in ("VertexEntry", "FragmentEntry",
                                                   "OverrideConstants")]
                if len(spec.structs) >= 3:
                    nontrivial.add((c.id, tuple(want)))
                if got != want:
                    dup = sorted({s for s in got if got.count(s) > 1})
                    missing = sorted(set(want) - set(got))
                    extra = sorted(set(got) - set(want))
                    rule = "duplicate" if dup else ("missing" if missing else "extra")
                    why = []
                    for s in (missing or extra or dup)[:1]:
                        why.append(("host" if s in host else "") + ("+param" if s in params else
                                                                    "") +
                                   ("+result" if s in results else "") or "unused/local")
                    viol.append(Violation("struct-" + rule, why[0] if why else "?",
                                          "emitted structs %s, expected %s (missing %s, extra %s, "
                                          "duplicated %s)" % (got, want, missing, extra, dup),
                                          {"case_id": c.id, "wgsl": c.wgsl, "options": x["opt"]}))
            expected_total += len(want)
            if len(samples) < 3 and fam == "struct" and "roles" in spec.families:
                samples.append({"case": c.id, "all_structs": list(spec.structs),
                                "expected_emitted": want})
    core.finish("C08", tier, "exploration", t0, viol, {
        "evaluations": evals, "distinct_nontrivial": len(nontrivial),
        "rule": "struct, entry and bind families, every option set: the pub struct items of the "
                "module vs the closure from the spec; roles generated: host via direct/array/"
                "array of arrays/runtime array/nesting, push constant, private, workgroup, "
                "vertex input only, fragment input only, stage output only, output reused as "
                "input, host+vertex input, function-local only, unused; non-trivial = shader "
                "with >= 3 structs",
        "samples": samples, "structs_expected": expected_total, "role_cells": role_cells,
    }, assumptions=["VertexEntry / FragmentEntry / OverrideConstants are helper types of the "
                    "module, not WGSL structs"])
