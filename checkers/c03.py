"""C03 - binding visibility equals exactly the stages that statically use it.

Events: `visibility` of every layout entry recorded while running get_bind_group_layout of the
generated module; PUSH_CONSTANT_STAGES / recorded push constant range stages.
Oracle: stage sets known by construction from the workload generator's call graph (reachability
over the spec), cross-checked as a lower bound with naga's own global-use analysis
(`oracle facts`), never with the tool's output.
"""
from vlib import core, probes
from vlib.core import Violation


def main(tier, replay, t0):
    camp = probes.campaign("bind", tier)
    viol = []
    decisions = 0
    cells = {}
    nontrivial = set()
    lost = 0
    probe_errors = 0
    max_depth = 0
    samples = []
    cases_used = 0
    many_helpers_used = 0
    for c in camp.cases.values():
        if c.frontend_rejected:
            continue
        x = c.cfgs[0]
        if c.gen[x["id"]].get("result") != "ok":
            v = probes.refusal_violation(c, x, "layout entry whose visibility could be read")
            if v and c.truth["groups"]:
                viol.append(v)
            continue
        if not camp.module_ok(c.id, x["id"]):
            lost += 1
            continue
        ps = camp.probe_state(c.id, x["id"], "probe_c02")
        if not ps or not ps["accepted"]:
            probe_errors += 1
            viol.append(Violation("layout-surface-missing", "probe_c02",
                                  "get_bind_group_layout / create_pipeline_layout of the generated "
                                  "module could not be called: %s" % (
                                      (ps or {}).get("diags", [{}])[0].get("message") if ps and
                                      ps.get("diags") else "probe not built"),
                                  {"case_id": c.id, "wgsl": c.wgsl, "options": x["opt"]}))
            continue
        groups, pl, _ = probes.recorded_layouts(camp, c.id, x["id"], "C02")
        bits = c.truth["stage_bits"]
        reach = c.spec.reach()
        depth = c.truth["call_depth"]
        cases_used += 1
        if "many-helpers" in getattr(c.spec, "families", []):
            many_helpers_used += 1
        # coverage cells: (site, form, via call?) per access
        for f in c.spec.funcs + c.spec.entries:
            for a in f.actions:
                if a.what == "access" and a.glob:
                    via = "direct" if f in c.spec.entries else "helper"
                    cells[(a.site, a.form, via)] = cells.get((a.site, a.form, via), 0) + 1
                elif a.what == "call":
                    cells[(a.site, "call", "value" if a.expr else "void")] = \
                        cells.get((a.site, "call", "value" if a.expr else "void"), 0) + 1
        for e in c.spec.entries:
            max_depth = max(max_depth, depth[e.name])
        for g in c.spec.globals:
            if not g.is_resource():
                continue
            ev = groups.get(g.group)
            entry = None
            if ev:
                for en in ev["entries"]:
                    if en["binding"] == g.binding:
                        entry = en
            decisions += 1
            rp = {"case_id": c.id, "wgsl": c.wgsl, "options": x["opt"], "global": g.name, "group": g.group,
                  "binding": g.binding, "expected": probes.stage_names(bits[g.name])}
            if entry is None:
                viol.append(Violation("entry-missing", g.kind, "no layout entry recorded for "
                                      "@group(%d) @binding(%d) %s" % (g.group, g.binding, g.name),
                                      rp))
                continue
            got = probes.vis_bits(entry["visibility"])
            rp["observed"] = probes.stage_names(got)
            if got != bits[g.name]:
                missing = bits[g.name] & ~got
                extra = got & ~bits[g.name]
                # which placement carries the lost / spurious use
                sites = sorted({(a.site, a.form) for f in c.spec.funcs + c.spec.entries
                                for a in f.actions if a.what == "access" and g.name in a.glob})
                rule = "stage-missing" if missing else "stage-added"
                viol.append(Violation(rule, probes.stage_names(missing or extra),
                                      "%s: visibility %s, statically used by %s (accesses at %s)"
                                      % (g.name, rp["observed"], rp["expected"], sites[:4]), rp))
            if bits[g.name] and any(depth[e.name] >= 2 and g.name in reach[e.name]
                                    for e in c.spec.entries):
                nontrivial.add((c.id, g.name))
        # push constant stages (range and constant) when used
        p = c.truth["push"]
        if p and p["used"]:
            decisions += 1
            if pl is not None:
                rs = pl["push_constant_ranges"]
                for r in rs:
                    if r["stages"] != p["stages"]:
                        viol.append(Violation("push-stage-mismatch",
                                              probes.stage_names(r["stages"] ^ p["stages"]),
                                              "push constant range stages %s, variable used by %s"
                                              % (probes.stage_names(r["stages"]),
                                                 probes.stage_names(p["stages"])),
                                              {"case_id": c.id, "wgsl": c.wgsl, "options": x["opt"]}))
        if len(samples) < 3 and len(c.spec.funcs) >= 3:
            samples.append({"case": c.id, "graph": [f for f in c.spec.families if "graph" in f],
                            "entries": [(e.name, e.stage) for e in c.spec.entries],
                            "stage_bits": {k: probes.stage_names(v) for k, v in
                                           list(bits.items())[:6]},
                            "wgsl_head": c.wgsl[:400]})
    inconclusive, ndecl = probes.decline_guard(camp, camp.cases.values())
    if many_helpers_used == 0:
        inconclusive.append("none of the many-helpers shaders (40-70 functions) was evaluated")
    sites_hit = {k[0] for k in cells}
    from gen.spec import S_SITES, E_SITES
    missing_sites = [s for s in S_SITES + E_SITES if s not in sites_hit]
    if missing_sites:
        inconclusive.append("placement sites never generated: %s" % missing_sites)
    if lost > 0.05 * max(1, len(camp.cases)):
        inconclusive.append("%d modules lost to compile errors" % lost)
    core.finish("C03", tier, "exploration", t0, viol, {
        "evaluations": decisions,
        "distinct_nontrivial": len(nontrivial),
        "rule": "bind family: %d shaders with 1-8 groups, helper DAGs (chain/diamond/fan/layers/"
                "random, up to 14 helpers), 0-3 real accesses per resource placed at one of %d "
                "control-flow sites, 1-2 entry points per chosen stage; non-trivial = (shader, "
                "binding) used by an entry point only reachable through >= 1 helper call" % (
                    cases_used, len(S_SITES + E_SITES)),
        "samples": samples, "decisions": decisions, "shaders": cases_used,
        "placement_cells_hit": len(cells), "sites_hit": sorted(sites_hit),
        "max_call_depth": max_depth, "cases_lost_to_compile_errors": lost,
        "cases_declined_by_tool": ndecl, "campaign": camp.stats,
    }, assumptions=[
        "the workload only uses access forms on which 'statically accessed' is unambiguous "
        "(loads, stores, atomics, arrayLength, texture builtins, calls); phony/pointer-only "
        "references are not generated"], inconclusive=inconclusive)
