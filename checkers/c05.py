"""C05 - bytemuck layout checks make a compiling struct match the WGSL layout.

Events: per (shader, representation): rustc's accept/reject verdict and messages for the module
generated with bytemuck host-shareable derives ON; offset_of!/size_of of every host-shareable
struct read at run time from the same shader generated with the switch OFF (and from the ON
module itself when it compiled).
Oracle: an independent WGSL layout calculator (cross-checked against naga's Layouter on every
run by `oracle stage --facts`).
 soundness     module accepted  => every host-shareable struct has exactly the WGSL offsets/size
 completeness  Rust layout differs from WGSL => module rejected
 precision     a rejection naming `S.f` / `S` names something that really differs
"""
import re

from vlib import core, probes
from vlib.core import Violation
from gen import wtypes as W

ASSERT_OFF = re.compile(r"offset of (\S+)\.(\S+) does not match WGSL")
ASSERT_SIZE = re.compile(r"size of (\S+) does not match WGSL")


def observed_layouts(camp, cid, cfgid):
    out = {}
    for e in camp.ev(cid, cfgid, "C05", "layout"):
        out[e["struct"]] = e
    return out


def compare(spec, truth, obs):
    """per struct: list of (what, name, rust, wgsl) differences"""
    diffs = {}
    padding = {}
    for s, o in obs.items():
        lay = truth["layouts"].get(s)
        if lay is None:
            continue
        sd = spec.structs[s]
        d = []
        dm = [(m, off) for m, off in zip(sd.members, lay["offsets"]) if not m.get("builtin")]
        of = {f["name"]: f for f in o["fields"]}
        for m, woff in dm:
            f = of.get(m["name"])
            if f is None:
                continue
            if f["offset"] != woff:
                d.append(("offset", m["name"], f["offset"], woff))
        if o["size"] != lay["size"]:
            d.append(("size", s, o["size"], lay["size"]))
        diffs[s] = d
        padding[s] = sum(f["size"] for f in o["fields"]) != o["size"]
    return diffs, padding


def main(tier, replay, t0):
    camp = probes.campaign("struct", tier)
    viol = []
    quad = {"match_accepted": 0, "match_rejected_padding": 0, "mismatch_rejected": 0,
            "mismatch_accepted": 0, "match_rejected_spurious": 0, "other_compile_errors": 0}
    evals = 0
    nontrivial = set()
    samples = []
    model_jobs = []
    isolated_seen = 0
    for c in camp.cases.values():
        if c.frontend_rejected:
            continue
        model_jobs.append({"id": c.id, "wgsl": c.wgsl, "facts": True})
    # model cross-check against naga's Layouter (harness fault if they disagree)
    disagree = []
    for r in core.run_oracle("stage", model_jobs, "c05/facts"):
        if r.get("error"):
            continue
        c = camp.cases[r["id"]]
        for s, nl in r["facts"]["layouts"].items():
            mine = c.truth["layouts"].get(s)
            if mine is None:
                continue
            if mine["offsets"] != nl["offsets"] or mine["size"] != nl["size"]:
                disagree.append((c.id, s, mine["offsets"], mine["size"], nl["offsets"],
                                 nl["size"]))
    if disagree:
        raise core.Inconclusive("layout model and naga disagree (harness fault): %r" %
                                disagree[:3])
    for c in camp.cases.values():
        if c.frontend_rejected:
            continue
        spec = c.spec
        host = [s for s in spec.host_structs() if s in spec.emitted_structs()
                and not W.has_runtime_array(spec.structs[s]) and s in c.truth["layouts"]]
        if not host:
            continue
        by_mv = {}
        for x in c.cfgs:
            if x.get("matrix"):
                continue
            slot = "on" if x["opt"].get("bh") else "off"
            d = by_mv.setdefault(x["opt"].get("mv", "rust"), {})
            if slot == "off" and "off" in d and not x.get("plain"):
                continue  # prefer the derive-free module as the observation side
            d[slot] = x
        for mv, pair in by_mv.items():
            on, off = pair.get("on"), pair.get("off")
            if not on or not off:
                continue
            if c.gen[on["id"]].get("result") != "ok" or c.gen[off["id"]].get("result") != "ok":
                continue
            base = {"case_id": c.id, "wgsl": c.wgsl, "repr": mv, "options_on": on["opt"], "options_off": off["opt"]}
            # presence: every emitted struct reachable from a module-scope variable carries one
            # size check and one offset check per field (read from the item inventory, so it is
            # independent of whether the layouts happen to agree)
            asserts = c.gen[on["id"]].get("inv", {}).get("asserts", [])
            emitted = {s["name"] for s in c.gen[on["id"]].get("inv", {}).get("structs", [])}
            for s in host:
                if s not in emitted or W.has_runtime_array(spec.structs[s]):
                    continue
                mine = [a for a in asserts if ("< %s >" % s) in a or ("(%s ," % s) in a]
                has_size = any("size_of" in a and ("< %s >" % s) in a for a in mine)
                missing = [m["name"] for m in spec.structs[s].data_members()
                           if not any("offset_of" in a and ("(%s , %s)" % (s, m["name"])) in a
                                      for a in mine)]
                if not has_size or missing:
                    kinds = sorted({("atomic" if m["ty"][0] == "at" or "atomic" in W.wgsl(m["ty"])
                                     else m["ty"][0]) for m in spec.structs[s].members})
                    viol.append(Violation("checks-missing", "%s:%s" % (
                        mv, "size" if not has_size else "offset"),
                        "host-shareable struct %s (member kinds %s) derives the bytemuck traits "
                        "but %s" % (s, kinds, "has no size check" if not has_size else
                                    "has no offset check for %s" % missing),
                        dict(base, struct=spec.structs[s].wgsl(), asserts=mine[:6])))
            if not camp.module_ok(c.id, off["id"]):
                quad["other_compile_errors"] += 1
                continue
            pso = camp.probe_state(c.id, off["id"], "probe_c05")
            if not pso or not pso["accepted"]:
                continue
            # same fields / types with the switch on and off
            ia = {s["name"]: [(f["name"], f["ty"]) for f in s["fields"]]
                  for s in c.gen[on["id"]].get("inv", {}).get("structs", [])}
            ib = {s["name"]: [(f["name"], f["ty"]) for f in s["fields"]]
                  for s in c.gen[off["id"]].get("inv", {}).get("structs", [])}
            if any(ia.get(s) != ib.get(s) for s in host):
                viol.append(Violation("fields-differ-with-switch", mv, "the bytemuck switch "
                                      "changes the fields of a struct", base))
                continue
            obs = observed_layouts(camp, c.id, off["id"])
            diffs, padding = compare(spec, c.truth, obs)
            mismatch = {s: d for s, d in diffs.items() if d and s in host}
            any_padding = any(padding.get(s) for s in host)
            evals += 1
            if any(len(spec.structs[s].data_members()) >= 2 for s in host):
                nontrivial.add((c.id, mv))
            accepted = camp.module_ok(c.id, on["id"])
            rs = camp.rustc.get("%s/%s/m.rs" % (c.id, on["id"]), {})
            diags = rs.get("diags", [])
            rp = dict(base, wgsl_layout={s: c.truth["layouts"][s] for s in host},
                      rust_layout={s: obs.get(s) for s in host}, rustc=[d["message"] for d in
                                                                        diags][:6])
            iso = [s for s, d in mismatch.items() if d and all(x[0] == "offset" for x in d)
                   and len(d) == 1]
            if iso:
                isolated_seen += 1
            if accepted:
                # soundness on the accepted module itself
                obs_on = observed_layouts(camp, c.id, on["id"])
                d_on, _ = compare(spec, c.truth, obs_on)
                bad = {s: d for s, d in d_on.items() if d and s in host}
                if mismatch or bad:
                    quad["mismatch_accepted"] += 1
                    s0 = sorted(mismatch or bad)[0]
                    d0 = (mismatch or bad)[s0][0]
                    viol.append(Violation("mismatch-accepted", "%s:%s" % (mv, d0[0]),
                                          "module compiles with bytemuck checks on although %s "
                                          "%s is %s in Rust and %s in WGSL" % (
                                              d0[0], d0[1], d0[2], d0[3]), rp))
                else:
                    quad["match_accepted"] += 1
                continue
            # rejected: classify the messages
            named_off = [(m.group(1), m.group(2)) for d in diags
                         for m in [ASSERT_OFF.search(d["message"] or "")] if m]
            named_size = [m.group(1) for d in diags
                          for m in [ASSERT_SIZE.search(d["message"] or "")] if m]
            pod = [d for d in diags if "derive(Pod) was applied to a type with padding" in
                   (d["message"] or "") or d.get("code") == "E0512"]
            others = [d for d in diags if not ASSERT_OFF.search(d["message"] or "") and
                      not ASSERT_SIZE.search(d["message"] or "") and d not in pod]
            if others and not (named_off or named_size or pod):
                quad["other_compile_errors"] += 1
                continue
            # precision
            for (s, f) in named_off:
                if s in diffs and not any(x[0] == "offset" and x[1] == f for x in diffs[s]):
                    viol.append(Violation("assert-offset-wrong-number", mv,
                                          "rejection says offset of %s.%s does not match WGSL, but "
                                          "the Rust offset equals the WGSL offset" % (s, f), rp))
            for s in named_size:
                if s in diffs and not any(x[0] == "size" for x in diffs[s]):
                    viol.append(Violation("assert-size-wrong-number", mv,
                                          "rejection says size of %s does not match WGSL, but the "
                                          "Rust size equals the WGSL size" % s, rp))
            if mismatch:
                quad["mismatch_rejected"] += 1
                # every differing member / size must be named (each assertion is load-bearing)
                for s, d in mismatch.items():
                    for x in d:
                        if x[0] == "offset" and (s, x[1]) not in named_off:
                            viol.append(Violation("mismatch-not-reported", "%s:offset" % mv,
                                                  "offset of %s.%s differs (Rust %s, WGSL %s) but "
                                                  "no assertion reports it" % (s, x[1], x[2], x[3]),
                                                  rp))
                        if x[0] == "size" and s not in named_size:
                            viol.append(Violation("mismatch-not-reported", "%s:size" % mv,
                                                  "size of %s differs (Rust %s, WGSL %s) but no "
                                                  "assertion reports it" % (s, x[2], x[3]), rp))
            elif any_padding or pod:
                quad["match_rejected_padding"] += 1
            else:
                quad["match_rejected_spurious"] += 1
                viol.append(Violation("spurious-rejection", mv, "module rejected although every "
                                      "host-shareable struct matches the WGSL layout and has no "
                                      "padding: %s" % [d["message"] for d in diags][:2], rp))
            if len(samples) < 4 and mismatch:
                s0 = sorted(mismatch)[0]
                samples.append({"case": c.id, "repr": mv, "struct": spec.structs[s0].wgsl(),
                                "differences": mismatch[s0][:3],
                                "rustc": [d["message"] for d in diags][:2]})
    # the checks must not depend on how the GENERATOR was compiled: the same jobs through a
    # release build of the generator (debug assertions off) must return the same text
    pairs = [(c, x) for c in camp.cases.values() if not c.frontend_rejected
             for x in c.cfgs if x["opt"].get("bh") and not x.get("matrix")]
    if tier == "quick":
        pairs = pairs[:240]
    dis, nrel = probes.profile_disagreements(camp, pairs, "c05/release")
    quad["release_profile_compared"] = nrel
    for c, x, a, b in dis[:20]:
        viol.append(Violation("checks-depend-on-build-profile", x["opt"].get("mv", "rust"),
                              "the generator built in release mode returns another text than "
                              "the dev build for the same shader and options (dev: %s, release: "
                              "%s)" % (a.get("result"), b.get("result")),
                              {"case_id": c.id, "wgsl": c.wgsl, "options": x["opt"]}))
    inconclusive, ndecl = probes.decline_guard(camp, [])
    if quad["match_accepted"] == 0 or quad["mismatch_rejected"] == 0:
        inconclusive.append("empty quadrant: %r" % quad)
    core.finish("C05", tier, "exploration", t0, viol, {
        "evaluations": evals, "distinct_nontrivial": len(nontrivial),
        "rule": "struct family: host-shareable structs (scalars, vec2-4, all matrix shapes, "
                "f32/f64, arrays incl. of vec3/matrices/structs, nesting, atomics, @size/@align, "
                "vec3 packing traps, isolated single-offset mismatches) x Rust/Glam/Nalgebra; "
                "one evaluation = one (shader, representation) pair compiled with the bytemuck "
                "switch on and probed with it off; non-trivial = pair whose struct has >= 2 "
                "members",
        "samples": samples, "quadrants": quad, "isolated_single_offset_cases": isolated_seen,
        "campaign": camp.stats,
    }, assumptions=[
        "nalgebra is a stand-in crate with nalgebra's documented column-major layout",
        "bool members have no WGSL layout and are excluded"], inconclusive=inconclusive)
