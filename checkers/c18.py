"""C18 - output is a pure function of source and options.

(a) equality monitor: every call is logged as key = (source, include path, options) ->
    hash(returned text) with pid/tid/seq; the same job set is run in several fresh processes
    (fresh hash seeds) with shuffled call orders, different working directories (one of which
    contains files named like the include paths) and different environments, once with every
    job repeated, and in one process on 16 threads; per key all hashes must be equal.
(b) syscall monitor: one process under strace; the driver brackets each call with marker
    syscalls; between the markers the calling thread may only use memory management /
    futex / getrandom / clock syscalls, plus - with rustfmt on - the pipe/spawn/wait protocol;
    the spawned child may only exec `rustfmt`.
(c) thorough: the threaded workload under ThreadSanitizer and (tiny) under Miri.
"""
import glob
import json
import os
import re
import shutil
import subprocess

from vlib import core
from vlib.core import Violation

MEM = {"mmap", "munmap", "mremap", "brk", "madvise", "mprotect", "futex", "getrandom",
       "clock_gettime", "clock_nanosleep", "sched_yield", "gettid", "rseq", "membarrier"}
FMT = {"pipe2", "pipe", "openat", "prlimit64", "getrlimit", "rt_sigprocmask", "clone3", "clone",
       "vfork", "fork", "read", "write", "close", "wait4", "waitid", "poll", "ppoll", "fcntl",
       "ioctl", "getpid", "rt_sigaction", "sigaltstack", "nanosleep", "restart_syscall",
       "pidfd_open", "close_range"}
CHILD_PRE_EXEC = {"rt_sigprocmask", "rt_sigaction", "dup2", "dup3", "close", "execve", "fcntl",
                  "ioctl", "prctl", "exit_group", "write", "getpid", "set_robust_list", "chdir_",
                  "close_range", "sigaltstack", "munmap", "mmap", "poll"}

OPTION_SETS = [
    {},
    {"bv": True, "bh": True},
    {"en": True, "mv": "glam", "bv": True},
    {"se": True, "en": True, "mv": "nalgebra"},
    {"bh": True, "mv": "glam", "val": "all"},
    {"en": True, "bh": False, "se": True, "val": "all"},
    # the same source under narrower capability sets (in shuffled order with the wide ones: a
    # verdict remembered per source text would leak from one call into the other)
    {"val": "none"},
    {"val": "default", "bv": True},
]


def many_structs(n, seed):
    """>= 6 structs and 6 groups so that any hash-order leak shows up across processes."""
    r = core.rng("c18-structs", seed)
    L = []
    names = ["S%d_%s" % (i, r.choice(["Alpha", "beta", "Gamma", "delta", "Eps"])) for i in range(n)]
    tys = ["f32", "vec2<f32>", "vec3<f32>", "vec4<f32>", "u32", "vec4<u32>", "mat4x4<f32>",
           "vec3<i32>", "array<vec4<f32>, 3>"]
    for i, nm in enumerate(names):
        ms = ["m%d: %s" % (k, r.choice(tys)) for k in range(r.randint(1, 5))]
        if i and r.random() < 0.5:
            ms.append("inner: %s" % names[r.randrange(i)])
        L.append("struct %s { %s }" % (nm, ", ".join(ms)))
    order = list(range(n))
    r.shuffle(order)
    for k, i in enumerate(order):
        L.append("@group(%d) @binding(%d) var<storage, read_write> g%d: %s;" % (
            k % 6, k // 6, i, names[i]))
    body = " ".join("_ = g%d.m0;" % i for i in order if r.random() < 0.7)
    L.append("@compute @workgroup_size(1) fn main() { %s }" % body)
    return "\n".join(L) + "\n"


def big_shader(n, salt):
    L = []
    for i in range(n):
        L.append("struct T%d_%d { a: vec4<f32>, b: vec4<u32>, c: mat4x4<f32> }" % (salt, i))
    L.append("struct All%d { %s }" % (salt, ", ".join("t%d: T%d_%d" % (i, salt, i)
                                                      for i in range(n))))
    L.append("@group(0) @binding(0) var<uniform> all: All%d;" % salt)
    L.append("@compute @workgroup_size(1) fn main() { _ = all.t0.a; }")
    return "\n".join(L) + "\n"


def deep_chain(depth):
    L = ["@group(0) @binding(0) var<storage, read_write> data: array<f32, 4>;",
         "@group(0) @binding(1) var tex: texture_2d<f32>;",
         "fn fx0() -> f32 { data[0] = data[0] + 1.0; return f32(textureDimensions(tex).x); }"]
    for k in range(1, depth + 1):
        L.append("fn fx%d() -> f32 { return fx%d() + 1.0; }" % (k, k - 1))
    L.append("@fragment fn fs_main() -> @location(0) vec4<f32> { return vec4<f32>(fx%d()); }"
             % depth)
    L.append("@compute @workgroup_size(1) fn cs_main() { data[1] = fx%d(); }" % depth)
    return "\n".join(L) + "\n"


def build_jobs():
    shaders = {}
    for p in sorted(glob.glob(os.path.join(core.VERIF, "gen", "corpus", "*.wgsl"))) + \
            core.corpus_fixture_shaders():
        shaders[os.path.basename(p)] = open(p).read()
    for k in range(6):
        shaders["many%d.wgsl" % k] = many_structs(8 + 2 * k, k)
    # deep call graphs: concurrent walks that share any process-wide state would interfere
    for depth in (40, 90, 120):
        shaders["deep%d.wgsl" % depth] = deep_chain(depth)
    # several push constants, each used by another entry point (a choice among them must not
    # depend on hash order), and outputs above the 64 KiB pipe buffer
    shaders["multipush.wgsl"] = (
        "var<push_constant> pa: vec4<f32>;\nvar<push_constant> pb: mat4x4<f32>;\n"
        "var<push_constant> pc3: array<vec4<f32>, 3>;\n"
        "@vertex fn vs() -> @builtin(position) vec4<f32> { return pa; }\n"
        "@fragment fn fs() -> @location(0) vec4<f32> { return pb[0]; }\n"
        "@compute @workgroup_size(1) fn cs() { _ = pc3[1]; }\n")
    for k in range(3):
        shaders["big%d.wgsl" % k] = big_shader(420 + 40 * k, k)
    # refusals are results too: which error (and which index it names) must not depend on the
    # process: several distinct slots declared twice, several gaps in the group numbering,
    # several errors in one text
    dup = []
    for k, (g, b) in enumerate([(0, 3), (1, 0), (0, 7), (2, 9), (1, 5), (3, 1), (0, 11), (2, 2)]):
        dup.append("@group(%d) @binding(%d) var<uniform> a%d: vec4<f32>;" % (g, b, k))
    for k, (g, b) in enumerate([(2, 9), (0, 7), (3, 1), (1, 5), (0, 3), (1, 0), (2, 2), (0, 11)]):
        dup.append("@group(%d) @binding(%d) var<storage, read> b%d: array<f32>;" % (g, b, k))
    dup.append("@compute @workgroup_size(1) fn main() { }")
    shaders["dupslots.wgsl"] = "\n".join(dup) + "\n"
    shaders["dupslots_rev.wgsl"] = "\n".join(dup[:-1][::-1] + dup[-1:]) + "\n"
    shaders["gaps.wgsl"] = "\n".join(
        ["@group(%d) @binding(%d) var<uniform> a%d: vec4<f32>;" % (g, k, k)
         for k, g in enumerate([7, 2, 9, 4, 0, 12])] + ["@compute @workgroup_size(1) fn main() { }"])
    # a shader on which the generator panics (Rust keyword as member name: recorded finding):
    # a panic in one call must leave every other call of the process as it was
    shaders["kwmember.wgsl"] = ("struct KwMember { in: vec4<f32>, dyn: f32 }\n@group(0) @binding(0) "
                                "var<storage, read_write> buf: KwMember;\n@compute "
                                "@workgroup_size(1) fn main() { buf.dyn = buf.in.x; }\n")
    shaders["manyerrors.wgsl"] = "fn a() -> f32 { return missing1; }\nfn b() { let x: u32 = 1.5; }\n" \
        "@compute @workgroup_size(1) fn main() { undefined_fn(); }\n"
    shaders["invalid.wgsl"] = "@group(0) @binding(0) var<uniform> u: vec4<f32>;\n" \
        "@group(0) @binding(0) var<uniform> w: vec4<f32>;\n" \
        "@fragment fn fs() -> @location(0) vec4<f32> { return u + w; }\n" \
        "@vertex fn vs() -> vec4<f32> { return u; }\n"
    jobs = []
    for name, src in sorted(shaders.items()):
        for oi, opt in enumerate(OPTION_SETS):
            jid = "%s#o%d#emb" % (name, oi)
            jobs.append({"id": jid, "source": src, "opt": opt})
        # include variant: relative path that exists in one of the working directories,
        # a nested one, an absolute one
        for pi, path in enumerate(["shader.wgsl", "sub/dir/" + name, "/nonexistent/abs/" + name]):
            jobs.append({"id": "%s#o1#inc%d" % (name, pi), "source": src, "opt": OPTION_SETS[1],
                         "include_path": path})
    return shaders, jobs


def parse_strace(path):
    """Yield (tid, text) for each line; merges unfinished/resumed pairs crudely."""
    with open(path, errors="replace") as f:
        for line in f:
            m = re.match(r"^(\d+)\s+(.*)$", line.rstrip("\n"))
            if m:
                yield int(m.group(1)), m.group(2)


def syscall_monitor(binp, jobs, work, real_dir, viol, stats):
    tr = os.path.join(work, "strace.txt")
    if os.path.exists(tr):
        os.remove(tr)
    sel = []
    seen = set()
    for j in jobs:
        key = (j["id"].split("#")[0], j["id"].split("#")[2][:3])
        if key in seen:
            continue
        seen.add(key)
        sel.append(dict(j))
    fmt_jobs = []
    bigs = [j for j in sel if j["id"].startswith("big")][:1]
    for j in sel[:12] + bigs:
        k = dict(j)
        k["id"] = j["id"] + "#fmt"
        k["opt"] = dict(j["opt"], fmt=True)
        fmt_jobs.append(k)
    allj = sel + fmt_jobs
    # cwd contains a file named like the include path and a rustfmt.toml-free environment
    cwd = os.path.join(work, "cwd_strace")
    os.makedirs(cwd, exist_ok=True)
    with open(os.path.join(cwd, "shader.wgsl"), "w") as f:
        f.write("// decoy\n")
    p, res = core.run_drive(binp, allj, "c18/strace", markers=True, cwd=cwd, timeout=900,
                            extra_env={"PATH": real_dir + ":/usr/bin:/bin",
                                       "RUSTFMT": "/bin/false", "FORMATTER": "/bin/false",
                                       "OUT_DIR": cwd, "TARGET": "x86_64-unknown-linux-gnu",
                                       "CARGO_MANIFEST_DIR": cwd},
                            wrapper=["strace", "-f", "-qq", "-s", "64", "-o", tr])
    if p.returncode != 0 or len(res) != len(allj):
        raise core.Inconclusive("strace run failed rc=%s: %s" % (p.returncode, p.stderr[-1500:]))
    order = [r["id"] for r in sorted(res, key=lambda r: r["seq"])]
    fmt_on = {j["id"]: bool(j["opt"].get("fmt")) for j in allj}
    # walk the trace
    bracket = None  # (tid, index)
    idx = -1
    own_fds = set()
    alloc_fds = set()
    children = {}
    seen_calls = {}
    brackets = 0
    pending_clone = False
    for tid, text in parse_strace(tr):
        if "VERIF-BEGIN" in text and text.startswith("write(-1"):
            idx += 1
            if idx == 0:
                # the first bracket is the driver's warm-up call? no: warm-up is unbracketed
                pass
            bracket = tid
            own_fds = set()
            children = {}
            brackets += 1
            continue
        if "VERIF-END" in text and text.startswith("write(-1"):
            bracket = None
            continue
        if bracket is None:
            continue
        jid = order[idx] if idx < len(order) else "?"
        fmt = fmt_on.get(jid, False)
        if text.startswith("---") or text.startswith("+++"):
            continue
        m = re.match(r"^(?:<\.\.\. )?(\w+)(?: resumed>)?", text)
        if not m:
            continue
        name = m.group(1)
        rp = {"job": jid, "line": text[:300], "tid": tid, "call_thread": bracket}
        if tid == bracket:
            seen_calls[name] = seen_calls.get(name, 0) + 1
            if name in MEM:
                continue
            # glibc's allocator reads /proc/sys/vm/overcommit_memory once, the first time it
            # considers shrinking a non-main heap (arena.c check_may_shrink_heap): allocator
            # internals, whichever call happens to trigger it
            if name == "sched_getaffinity":
                continue  # glibc __get_nprocs when malloc sizes its arena pool
            if name == "openat" and "O_RDONLY" in text and any(
                    q in text for q in ('"/proc/sys/vm/overcommit_memory"',
                                        '"/sys/devices/system/cpu/online"',
                                        '"/sys/devices/system/cpu/possible"')):
                fm = re.search(r"= (\d+)$", text)
                if fm:
                    alloc_fds.add(int(fm.group(1)))
                stats["allocator_overcommit_reads"] = stats.get(
                    "allocator_overcommit_reads", 0) + 1
                continue
            if name in ("read", "close"):
                fm = re.match(r"^\w+\((\d+)", text)
                if fm and int(fm.group(1)) in alloc_fds:
                    if name == "close":
                        alloc_fds.discard(int(fm.group(1)))
                    continue
            if not fmt:
                viol.append(Violation("syscall-formatter-off", name,
                                      "call with rustfmt off made syscall: %s" % text[:200], rp))
                continue
            if name not in FMT:
                viol.append(Violation("syscall-formatter-on", name,
                                      "call with rustfmt on made a syscall outside the spawn/"
                                      "pipe/wait protocol: %s" % text[:200], rp))
                continue
            if name in ("pipe2", "pipe"):
                fm = re.search(r"\[(\d+), (\d+)\]", text)
                if fm:
                    own_fds.update([int(fm.group(1)), int(fm.group(2))])
            elif name == "openat":
                if '"/dev/null"' not in text:
                    viol.append(Violation("open-other-file", "openat",
                                          "opened a file other than /dev/null: %s" % text[:200],
                                          rp))
                else:
                    fm = re.search(r"= (\d+)$", text)
                    if fm:
                        own_fds.add(int(fm.group(1)))
            elif name in ("read", "write", "close") and "resumed" not in text:
                fm = re.match(r"^\w+\((-?\d+)", text)
                if fm and int(fm.group(1)) not in own_fds:
                    viol.append(Violation("fd-not-own", name,
                                          "%s on a descriptor the call did not create: %s" % (
                                              name, text[:200]), rp))
            elif name in ("clone3", "clone", "vfork", "fork"):
                fm = re.search(r"= (\d+)$", text)
                if fm:
                    children[int(fm.group(1))] = "pre"
        else:
            # another task inside the bracket: must be the formatter child
            if not fmt:
                # other driver threads may be sleeping in futex; anything else is unexpected
                if name not in MEM and name not in ("restart_syscall",):
                    st = children.get(tid)
                    if st is None:
                        stats["foreign_thread_calls"] += 1
                continue
            st = children.get(tid, "pre")
            if st == "post":
                continue
            if name == "execve":
                pm = re.search(r'execve\("([^"]*)"', text)
                if pm and os.path.basename(pm.group(1)) != "rustfmt":
                    viol.append(Violation("exec-other-program", os.path.basename(pm.group(1)),
                                          "child executed %s" % pm.group(1), rp))
                if re.search(r"= 0$", text) or "resumed>) = 0" in text.replace("  ", " "):
                    children[tid] = "post"
                elif "unfinished" in text:
                    children[tid] = "exec-pending"
                continue
            if st == "exec-pending":
                if "execve resumed" in text and re.search(r"=\s*0$", text):
                    children[tid] = "post"
                elif "execve resumed" in text:
                    children[tid] = "pre"
                continue
    stats["brackets"] = brackets
    stats["syscalls_seen"] = seen_calls
    if brackets != len(allj):
        raise core.Inconclusive("strace: %d brackets for %d jobs" % (brackets, len(allj)))
    return len(allj)


def main(tier, replay, t0):
    binp = core.build_drive()
    real = shutil.which("rustfmt")
    real_dir = os.path.dirname(real) if real else "/nonexistent"
    work = os.path.join(core.WORK, "c18")
    os.makedirs(work, exist_ok=True)
    shaders, jobs = build_jobs()
    viol = []
    obs = {}  # key -> {hash: [where]}
    stats = {"processes": 0, "threads": 0, "orders": 0, "outputs": 0, "foreign_thread_calls": 0,
             "declined": 0}

    def record(tag, res, single_thread=True):
        for r in res:
            key = r["id"]
            st = r.get("state")
            if st and single_thread:
                stats["state_checks"] = stats.get("state_checks", 0) + 1
                left = []
                if st["fds_after"] != st["fds_before"]:
                    left.append("open descriptors %d -> %d" % (st["fds_before"], st["fds_after"]))
                if st["children_after"] != st["children_before"]:
                    left.append("child processes not reaped: %r" % st["children_after"])
                for k_ in ("cwd", "env", "sigpipe", "umask"):
                    if st.get(k_ + "_changed"):
                        left.append(k_ + " changed")
                if left:
                    what = left[0].split()[0]
                    viol.append(Violation("call-leaves-state", "%s:%s" % (
                        what, tag.rstrip("0123456789")),
                        "after the call returned the process differs from before it: %s" %
                        "; ".join(left), {"key": key, "state": st, "run": tag,
                                          "source": shaders.get(key.split("#")[0], "")[:3000]}))
            if r["result"] == "ok":
                h = r["text_sha"]
            elif r["result"] == "err":
                h = "ERR:%s:%s:%s" % (r.get("err_kind"), r.get("err_payload"), r.get("display"))
                stats["declined"] += 1
            else:
                h = "PANIC:" + (r.get("panic") or "").split(" @ ")[0][:80]
                stats["declined"] += 1
            obs.setdefault(key, {}).setdefault(h, []).append("%s/seq%s/%s" % (
                tag, r.get("seq"), r.get("tid")))
            stats["outputs"] += 1
            for k2, h2 in enumerate(r.get("repeat_shas") or []):
                if h2 != r.get("text_sha") and r["result"] == "ok":
                    obs[key].setdefault(h2, []).append("%s/repeat%d" % (tag, k2))

    # working directories
    cwd_a = os.path.join(work, "cwd_a")
    cwd_b = os.path.join(work, "cwd_b", "deeper")
    for d in (cwd_a, cwd_b):
        os.makedirs(d, exist_ok=True)
    with open(os.path.join(cwd_a, "shader.wgsl"), "w") as f:
        f.write("// a file with the include path's name, different content\n")
    os.makedirs(os.path.join(cwd_a, "sub", "dir"), exist_ok=True)
    for n in shaders:
        with open(os.path.join(cwd_a, "sub", "dir", n), "w") as f:
            f.write(shaders[n])
    envs = [
        {},
        {"HOME": "/nonexistent-home", "LANG": "tr_TR.UTF-8", "LC_ALL": "tr_TR.UTF-8", "TZ": "Asia/Kolkata",
         "TERM": "dumb", "NO_COLOR": "1", "RUST_LOG": "trace", "RUST_BACKTRACE": "full",
         "TMPDIR": "/nonexistent-tmp", "CARGO_MANIFEST_DIR": "/x", "OUT_DIR": "/y"},
        {"HOME": cwd_a, "LANG": "C", "TERM": "xterm-256color", "CLICOLOR_FORCE": "1",
         "RUSTFMT": "/bin/false", "CARGO": "/bin/false", "PROFILE": "release", "DEBUG": "true"},
    ]
    nproc = 4 if tier == "quick" else 16
    # process 0: natural order, every job twice in a row
    jobs = [dict(j, state=True) for j in jobs]
    j0 = [dict(j, repeat=2) for j in jobs]
    p, res = core.run_drive(binp, j0, "c18/p0", cwd=cwd_b)
    if p.returncode != 0 or len(res) != len(jobs):
        raise core.Inconclusive("p0 failed: %s" % p.stderr[-1500:])
    record("p0", res)
    stats["processes"] += 1
    for k in range(1, nproc + 1):
        e = dict(envs[k % len(envs)])
        e["PATH"] = "/nonexistent-path" if k % 2 else os.environ.get("PATH", "")
        p, res = core.run_drive(binp, jobs, "c18/p%d" % k, shuffle=core.seed() * 1000 + k,
                                cwd=cwd_a if k % 2 else cwd_b, extra_env=e)
        if p.returncode != 0 or len(res) != len(jobs):
            raise core.Inconclusive("p%d failed: %s" % (k, p.stderr[-1500:]))
        record("p%d" % k, res)
        stats["processes"] += 1
        stats["orders"] += 1
    for k in range(2 if tier == "quick" else 6):
        p, res = core.run_drive(binp, jobs + jobs, "c18/t%d" % k, threads=16,
                                shuffle=core.seed() * 77 + k, cwd=cwd_a)
        if p.returncode != 0 or len(res) != 2 * len(jobs):
            raise core.Inconclusive("threaded run failed: %s" % p.stderr[-1500:])
        record("t%d" % k, res, single_thread=False)
        stats["processes"] += 1
        stats["orders"] += 1
        stats["threads"] = max(stats["threads"], len({r["tid"] for r in res}))
    # stress: only the deep shaders, many repetitions, all threads inside the walk at once
    deep = [j for j in jobs if j["id"].startswith("deep") and "#emb" in j["id"]]
    reps = 40 if tier == "quick" else 300
    stress = [dict(j) for _ in range(reps) for j in deep]
    for k in range(2 if tier == "quick" else 5):
        p, res = core.run_drive(binp, stress, "c18/s%d" % k, threads=16, shuffle=k, cwd=cwd_b)
        if p.returncode != 0 or len(res) != len(stress):
            raise core.Inconclusive("stress run failed: %s" % p.stderr[-1500:])
        record("stress%d" % k, res, single_thread=False)
        stats["processes"] += 1
    stats["stress_calls"] = len(stress) * (2 if tier == "quick" else 5)
    # formatter on: same directory discipline (no rustfmt.toml), subset of jobs
    if real:
        fj = [dict(j, id=j["id"] + "#fmt", opt=dict(j["opt"], fmt=True)) for j in jobs[::7]]
        # a temp directory holding a rustfmt.toml (hard tabs): the formatter must not be started
        # from there
        tmp_with_config = os.path.join(work, "tmp with config")
        os.makedirs(tmp_with_config, exist_ok=True)
        with open(os.path.join(tmp_with_config, "rustfmt.toml"), "w") as f:
            f.write("hard_tabs = true\nmax_width = 60\n")
        for k in range(4):
            # the environment is not an input either: variables other tools give a meaning to
            # (RUSTFMT, CARGO, RUSTUP_TOOLCHAIN ...) must not select another formatter
            # (HOME / RUSTUP_* / CARGO_HOME stay as they are: `rustfmt` is a rustup proxy here
            # and those select the real formatter's toolchain - the formatter's own business)
            fe = [{}, {"RUSTFMT": "/bin/false"},
                  {"RUSTFMT": "/nonexistent/rustfmt", "RUSTFMT_PATH": "/bin/false",
                   "FORMATTER": "/bin/false", "WGSL_TO_WGPU_RUSTFMT": "/bin/false",
                   "TMPDIR": "/nonexistent-tmp", "TMP": "/nonexistent-tmp",
                   "TEMP": "/nonexistent-tmp"},
                  {"RUSTFMT": os.path.join(core.VERIF, "stubs", "garbage_exit3", "rustfmt"),
                   "NO_COLOR": "1", "TERM": "dumb", "LANG": "tr_TR.UTF-8",
                   "TMPDIR": tmp_with_config, "OUT_DIR": tmp_with_config,
                   "TARGET": "x86_64-unknown-linux-gnu"}][k]
            fe["PATH"] = real_dir + ":/usr/bin:/bin"
            p, res = core.run_drive(binp, fj, "c18/f%d" % k, shuffle=k + 5,
                                    cwd=cwd_b if k % 2 else cwd_a, extra_env=fe)
            if p.returncode != 0 or len(res) != len(fj):
                raise core.Inconclusive("formatter run failed: %s" % p.stderr[-1500:])
            record("f%d" % k, res)
            stats["processes"] += 1

        # concurrent formatter-on calls with outputs above the pipe buffer (a shared scratch
        # file or any other per-process resource would mix them up)
        bigfmt = [dict(j, id=j["id"] + "#fmt", opt=dict(j["opt"], fmt=True)) for j in jobs
                  if j["id"].startswith("big") and j["id"].endswith("#o0#emb")]
        seq = []
        p, seq = core.run_drive(binp, bigfmt, "c18/bigseq", cwd=cwd_b,
                                extra_env={"PATH": real_dir + ":/usr/bin:/bin"})
        if p.returncode != 0 or len(seq) != len(bigfmt):
            raise core.Inconclusive("big formatter run failed: %s" % p.stderr[-1500:])
        record("bigseq", seq)
        p, res = core.run_drive(binp, bigfmt * 6, "c18/bigthr", threads=6, shuffle=3, cwd=cwd_a,
                                timeout=900, extra_env={"PATH": real_dir + ":/usr/bin:/bin"})
        if p.returncode != 0 or len(res) != 6 * len(bigfmt):
            raise core.Inconclusive("threaded big formatter run failed: %s" % p.stderr[-1500:])
        record("bigthr", res, single_thread=False)
        stats["processes"] += 2
        # more formatter-on calls in flight than the machine has cores (a call must not choose
        # another way of formatting because others are busy)
        many = [dict(j) for _ in range(3) for j in fj[:24]]
        p, res = core.run_drive(binp, many, "c18/fmt48", threads=48, shuffle=11, cwd=cwd_b,
                                timeout=900, extra_env={"PATH": real_dir + ":/usr/bin:/bin"})
        if p.returncode != 0 or len(res) != len(many):
            raise core.Inconclusive("48-thread formatter run failed: %s" % p.stderr[-1500:])
        record("fmt48", res, single_thread=False)
        stats["processes"] += 1
        # the formatter's speed is not an input: a correct but slow formatter must give the
        # same bytes as the fast one
        slow = fj[:8]
        p, res = core.run_drive(binp, slow, "c18/slow", threads=8, cwd=cwd_b, timeout=600,
                                extra_env={"PATH": os.path.join(core.VERIF, "stubs", "slow3_ok"),
                                           "VERIF_REAL_RUSTFMT": real})
        if p.returncode != 0 or len(res) != len(slow):
            raise core.Inconclusive("slow formatter run failed: %s" % p.stderr[-1500:])
        record("slowfmt", res, single_thread=False)
        stats["processes"] += 1
    if real:
        # history: a call during which the formatter cannot be started (or fails) must not
        # change what later calls return once it works again; nor may it leave children behind
        good = real_dir + ":/usr/bin:/bin"
        seqj = []
        faults = ["/nonexistent-path", os.path.join(core.VERIF, "stubs", "exit1_immediately"),
                  os.path.join(core.VERIF, "stubs", "kill_before_read"),
                  os.path.join(core.VERIF, "stubs", "garbage_exit3"),
                  os.path.join(core.VERIF, "stubs", "exit0_without_reading")]
        pool = fj[:10] + bigfmt[:1]
        for k, j in enumerate(pool):
            seqj.append(dict(j, set_env={"PATH": good}))
            other = pool[(k + 3) % len(pool)]
            seqj.append(dict(other, id=other["id"] + "#faulty%d" % (k % len(faults)),
                             set_env={"PATH": faults[k % len(faults)]}))
            seqj.append(dict(j, set_env={"PATH": good}))
        p, res = core.run_drive(binp, seqj, "c18/history", cwd=cwd_b, timeout=900,
                                extra_env={"PATH": good, "VERIF_REAL_RUSTFMT": real})
        if p.returncode != 0 or len(res) != len(seqj):
            raise core.Inconclusive("history run failed: %s" % p.stderr[-1500:])
        record("history", res)
        stats["processes"] += 1
        stats["history_calls"] = len(seqj)
    nontrivial = 0
    samples = []
    for key, hs in sorted(obs.items()):
        n_obs = sum(len(v) for v in hs.values())
        if n_obs >= 3:
            nontrivial += 1
        if len(hs) > 1:
            name = key.split("#")
            rp = {"key": key, "observations": {h: w[:6] for h, w in hs.items()},
                  "source": shaders.get(name[0], "")[:3000]}
            jb = [j for j in jobs if j["id"] == key.replace("#fmt", "")]
            if jb:
                rp["options"] = jb[0]["opt"]
                rp["include_path"] = jb[0].get("include_path")
            kind = "include" if "#inc" in key else "embedded"
            viol.append(Violation("output-differs", kind + ("+fmt" if key.endswith("#fmt") else ""),
                                  "%d different results for one (source, path, options) key: %s"
                                  % (len(hs), {h[:24]: len(w) for h, w in hs.items()}), rp))
        elif len(samples) < 4 and "many" in key:
            samples.append({"key": key, "hash": list(hs)[0][:24], "observations": n_obs,
                            "where": list(hs.values())[0][:4]})
    n_traced = syscall_monitor(binp, jobs, work, real_dir, viol, stats)

    san = {}
    if tier == "thorough":
        san = sanitizers(jobs, work, viol)
    core.finish("C18", tier, "exploration", t0, viol, {
        "evaluations": stats["outputs"] + n_traced,
        "distinct_nontrivial": nontrivial,
        "rule": "keys = %d (shader x option set x embedded/include path); each key observed in "
                "%d processes (fresh hash seeds; shuffled orders; 2 working directories, one "
                "holding files named like the include paths; 3 environments) incl. runs on 16 "
                "threads and back-to-back repeats; non-trivial = key observed >= 3 times; plus "
                "%d calls bracketed under strace" % (len(obs), stats["processes"], n_traced),
        "samples": samples, "keys": len(obs), **stats,
        "sanitizers": san or "thorough only",
    }, assumptions=[
        "environment reads are invisible to strace: covered only differentially by the "
        "environment variants",
        "with rustfmt on, byte identity is claimed for directories without a rustfmt.toml",
        "syscall allow-list: memory management, futex, getrandom, clocks; formatter protocol = "
        "pipe2/openat(/dev/null)/prlimit64/rt_sigprocmask/clone3/read/write/close on own "
        "descriptors/wait4"])


def sanitizers(jobs, work, viol):
    out = {}
    small = [j for j in jobs if "#emb" in j["id"]][::3]
    # ThreadSanitizer: 16 threads, 5 runs
    try:
        tb = core.build_drive("tsan")
        reports = {}
        for k in range(5):
            logp = os.path.join(work, "tsan.%d" % k)
            for f in glob.glob(logp + "*"):
                os.remove(f)
            p, res = core.run_drive(tb, small + small, "c18/tsan%d" % k, threads=16, shuffle=k,
                                    timeout=3000,
                                    extra_env={"TSAN_OPTIONS": "halt_on_error=0:log_path=%s:"
                                                               "exitcode=0" % logp})
            for f in glob.glob(logp + "*"):
                txt = open(f, errors="replace").read()
                for block in txt.split("=================="):
                    if "WARNING: ThreadSanitizer" in block:
                        frame = "unknown"
                        for line in block.splitlines():
                            if " in " in line and ("wgsl_to_wgpu" in line or "naga" in line or
                                                   "proc_macro2" in line or "syn" in line):
                                frame = line.split(" in ")[1].split()[0][:80]
                                break
                        reports.setdefault(frame, block[:3000])
        out["tsan"] = {"runs": 5, "jobs_per_run": 2 * len(small), "reports": len(reports)}
        for frame, block in reports.items():
            viol.append(Violation("tsan-report", frame, block[:600], {"report": block}))
    except core.Inconclusive as e:
        out["tsan"] = {"built": False, "why": str(e)[:300]}
    out["miri"] = miri_run(work, viol)
    return out


def miri_run(work, viol):
    """Two threads, one tiny shader each, under Miri (data races / UB in the generator and its
    dependencies).  Slow: kept tiny."""
    d = os.path.join(work, "miri")
    os.makedirs(os.path.join(d, "src"), exist_ok=True)
    core.write_if_changed(os.path.join(d, "Cargo.toml"), """[package]
name = "miri_c18"
version = "0.1.0"
edition = "2021"
[dependencies]
wgsl_to_wgpu = { path = "%s/wgsl_to_wgpu" }
[workspace]
""" % core.REPO)
    core.write_if_changed(os.path.join(d, "src", "main.rs"), """
use wgsl_to_wgpu::*;
fn main() {
    let srcs = [
        "struct A { a: vec4<f32> }\\n@group(0) @binding(0) var<uniform> u: A;\\n@compute @workgroup_size(1) fn main() { _ = u.a; }",
        "@vertex fn v() -> @builtin(position) vec4<f32> { return vec4<f32>(0.0); }",
    ];
    let first: Vec<String> = srcs.iter().map(|s| create_shader_module_embedded(s, WriteOptions::default()).unwrap()).collect();
    let hs: Vec<_> = (0..2).map(|i| { let s = srcs[i].to_string(); std::thread::spawn(move || create_shader_module_embedded(&s, WriteOptions::default()).unwrap()) }).collect();
    for (i, h) in hs.into_iter().enumerate() { assert_eq!(h.join().unwrap(), first[i], "output differs across threads"); }
    println!("miri-ok");
}
""")
    core._cargo_lock_into(d)
    try:
        p = subprocess.run(["cargo", "+nightly", "miri", "run", "--offline"], cwd=d,
                           env=core.env(MIRIFLAGS="-Zmiri-many-seeds=0..4",
                                        CARGO_TARGET_DIR=os.path.join(core.TARGET, "miri")),
                           stdout=subprocess.PIPE, stderr=subprocess.PIPE, text=True,
                           timeout=5400)
    except subprocess.TimeoutExpired:
        return {"status": "timeout (inconclusive)"}
    ub = "Undefined Behavior" in p.stderr or "data race" in p.stderr.lower()
    if ub:
        viol.append(Violation("miri-report", "ub", p.stderr[-1500:], {"stderr": p.stderr[-6000:]}))
    return {"status": "ok" if p.returncode == 0 else "rc=%d" % p.returncode, "seeds": 4,
            "ub_reported": ub, "tail": p.stderr[-300:] if p.returncode else ""}
