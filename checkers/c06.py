"""C06 - struct fields keep WGSL order, names and element types.

Events: for every field of every emitted struct, evaluated in the compiled module: TypeId
equality with the expected Rust type expression, type_name of both, offset_of; and the
syn inventory of the returned text (field names in order, attributes).
Oracle: the WGSL member list of the spec and the documented leaf-type table composed
structurally by the workload generator.
"""
from vlib import core, probes
from vlib.core import Violation
from gen import wtypes as W


def main(tier, replay, t0):
    viol = []
    fields = 0
    leaf_cells = {}
    nontrivial = set()
    samples = []
    lost = 0
    for fam in ("struct", "entry"):
        camp = probes.campaign(fam, tier)
        for c in camp.cases.values():
            if c.frontend_rejected:
                continue
            spec = c.spec
            for x in c.cfgs:
                if x.get("matrix"):
                    continue
                g = c.gen[x["id"]]
                mv = x["opt"].get("mv", "rust")
                if g.get("result") == "panic" and "untime-sized array" not in (g.get("panic") or ""):
                    # the only documented refusals of struct generation are the two runtime-array
                    # ones; anything else leaves a valid member type without a Rust field
                    why = (g.get("panic") or "").split(" @ ")[0][:60]
                    viol.append(Violation("member-type-refused", "%s:%s" % (
                        mv, why.replace(" ", "-")),
                        "struct generation panics (%s) for a shader naga accepts: some member "
                        "type has no Rust type under %s" % (g.get("panic"), mv),
                        {"case_id": c.id, "wgsl": c.wgsl, "options": x["opt"]}))
                    continue
                if g.get("result") != "ok":
                    continue
                base = {"case_id": c.id, "wgsl": c.wgsl, "options": x["opt"]}
                inv = {s["name"]: s for s in g.get("inv", {}).get("structs", [])}
                # order and names from the item inventory (works even if the module is rejected)
                for s in spec.emitted_structs():
                    sd = spec.structs[s]
                    want = [m["name"] for m in sd.data_members()]
                    it = inv.get(s)
                    if it is None:
                        continue  # C08's business
                    got = [f["name"] for f in it["fields"]]
                    if got != want:
                        rule = "field-order" if sorted(got) == sorted(want) else "field-set"
                        viol.append(Violation(rule, mv, "struct %s has fields %s, WGSL members "
                                              "(non-builtin, in order) are %s" % (s, got, want),
                                              dict(base, struct=sd.wgsl())))
                    members = {m["name"]: m for m in sd.data_members()}
                    for f in it["fields"]:
                        m = members.get(f["name"])
                        if m is None or (m["ty"][0] == "a" and m["ty"][2] is None):
                            continue
                        if m["ty"][0] in ("s", "at") and (f.get("ty") or "").replace(" ", "") != \
                                m["ty"][1]:
                            # (read from the item inventory: holds even where the module is
                            # rejected by rustc for another reason)
                            viol.append(Violation("field-type", "%s:%s" % (mv, W.wgsl(m["ty"])),
                                                  "%s.%s: WGSL %s should be the Rust scalar %s, "
                                                  "the field is declared as %s" % (
                                                      s, f["name"], W.wgsl(m["ty"]), m["ty"][1],
                                                      f.get("ty")), dict(base, struct=sd.wgsl())))
                        if any("runtime" in a for a in f["attrs"]) or \
                                (f.get("ty") or "").replace(" ", "").startswith("Vec<"):
                            viol.append(Violation("fixed-member-became-runtime-sized", mv,
                                                  "%s.%s is %s in WGSL (fixed size) but the Rust "
                                                  "field is %s %s" % (s, f["name"], W.wgsl(m["ty"]),
                                                                      f["attrs"], f.get("ty")),
                                                  dict(base, struct=sd.wgsl())))
                    if W.has_runtime_array(sd) and it["fields"]:
                        last = it["fields"][-1]
                        if not any("size" in a and "runtime" in a for a in last["attrs"]):
                            viol.append(Violation("runtime-array-not-marked", mv,
                                                  "trailing runtime array field %s.%s lacks the "
                                                  "runtime-sized marker" % (s, last["name"]),
                                                  dict(base, struct=sd.wgsl())))
                if not camp.module_ok(c.id, x["id"]):
                    lost += 1
                    import re as _re
                    for d in probes.unexpected_rejection(camp, c.id, x["id"]):
                        m = _re.search(r"cannot find type `([^`]+)`", d.get("message") or "")
                        if m and m.group(1) in spec.structs and \
                                m.group(1) in spec.emitted_structs():
                            viol.append(Violation("nested-struct-undefined", mv,
                                                  "a field refers to struct `%s`, which has to be "
                                                  "emitted (it is reachable from a module-scope "
                                                  "variable) but is not defined in the module" %
                                                  m.group(1), dict(base, rustc=d.get("message"))))
                            break
                        if m and m.group(1) not in spec.structs:
                            viol.append(Violation("field-type-undefined", mv,
                                                  "a field is declared with the type `%s`, which "
                                                  "neither the module nor the selected crates "
                                                  "define" % m.group(1),
                                                  dict(base, rustc=d.get("message"))))
                            break
                    continue
                ps = camp.probe_state(c.id, x["id"], "probe_c06")
                if ps is None:
                    continue
                if not ps["accepted"]:
                    d = ps.get("diags") or [{}]
                    viol.append(Violation("field-surface-mismatch", d[0].get("code") or "probe",
                                          "a field named after a WGSL member is missing or the "
                                          "expected type does not exist: %s" % d[0].get("message"),
                                          dict(base, rustc=d[:2])))
                    continue
                for e in camp.ev(c.id, x["id"], "C06", "field"):
                    fields += 1
                    sd = spec.structs[e["struct"]]
                    m = sd.data_members()[e["i"]]
                    leaf = m["ty"]
                    while leaf[0] == "a":
                        leaf = leaf[1]
                    leaf_cells[(W.wgsl(leaf) if leaf[0] != "st" else "struct", mv)] = 1
                    if m["ty"][0] in ("a", "st"):
                        nontrivial.add((c.id, x["id"], e["struct"], e["field"]))
                    wide_int = leaf[0] == "v" and leaf[2] in ("i64", "u64")
                    if wide_int and m["ty"][0] == "v" and e.get("size", 1 << 30) < 8 * leaf[1]:
                        viol.append(Violation("field-lane-width", "%s:%s" % (mv, W.wgsl(leaf)),
                                              "%s.%s: WGSL %s has %d lanes of 64 bits, the Rust "
                                              "field %s is only %d bytes" % (
                                                  e["struct"], e["field"], W.wgsl(leaf), leaf[1],
                                                  e["type_name"], e["size"]),
                                              dict(base, field=e)))
                    elif wide_int and mv == "glam" and e["type_name"].replace(" ", "") == \
                            W.rust_type(m["ty"], "rust").replace(" ", ""):
                        pass  # plain arrays are a faithful fallback where glam is not used
                    elif not e["eq"]:
                        viol.append(Violation("field-type", "%s:%s" % (
                            mv, W.wgsl(m["ty"]) if leaf[0] != "st" else "nested"),
                            "%s.%s: WGSL %s under %s should be %s, module has %s" % (
                                e["struct"], e["field"], W.wgsl(m["ty"]), mv, e["expected"],
                                e["type_name"]), dict(base, field=e)))
                    if len(samples) < 5 and m["ty"][0] == "a":
                        samples.append({"wgsl": "%s: %s" % (m["name"], W.wgsl(m["ty"])),
                                        "repr": mv, "rust": e["type_name"]})
    want_cells = set()
    for mv in ("rust", "glam", "nalgebra"):
        for k in ("f32", "i32", "u32"):
            want_cells.add((k, mv))
            for n in (2, 3, 4):
                want_cells.add(("vec%d<%s>" % (n, k), mv))
        for cc in (2, 3, 4):
            for rr in (2, 3, 4):
                want_cells.add(("mat%dx%d<f32>" % (cc, rr), mv))
    missing = sorted(x for x in want_cells if x not in leaf_cells)
    inconclusive = []
    if len(missing) > (0 if tier == "thorough" else 12):
        inconclusive.append("leaf table cells never generated: %s" % missing[:12])
    core.finish("C06", tier, "exploration", t0, viol, {
        "evaluations": fields, "distinct_nontrivial": len(nontrivial),
        "rule": "struct and entry families x Rust/Glam/Nalgebra: every field of every emitted "
                "struct (host-shareable, vertex inputs, fragment inputs, runtime-array "
                "terminated) is compared by TypeId with the expected type; non-trivial = field "
                "of array or struct type",
        "samples": samples, "fields": fields, "leaf_cells_hit": len(leaf_cells),
        "leaf_cells_missing": missing, "modules_lost_to_compile_errors": lost,
    }, assumptions=[
        "matrices in the plain representation are `[[T; C]; R]` as pinned by the repository's "
        "own snapshot (types.rust.rs); nalgebra is a stand-in exposing SVector/SMatrix"],
        inconclusive=inconclusive)
