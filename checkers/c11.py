"""C11 - group numbering contract: dense groups, unique slots, or a typed error.

Workload: bounded-exhaustive ordered sequences of resource variables over a small index grid
(each with validation off and on, with the variables unused and used by the entry point) plus
random multisets with indices up to u32::MAX and mixed resource kinds.
Monitor: Result/panic of the generator (observed by `drive run`); on Ok the binding numbers
found per group in the returned module.  Oracle: a reference predicate over the multiset.
"""
import itertools
import re
import time

from vlib import core
from vlib.core import Violation

KINDS = [
    ("var<uniform> {n}: vec4<f32>;", "_ = {n}.x;"),
    ("var<storage, read> {n}: array<f32>;", "_ = {n}[0];"),
    ("var<storage, read_write> {n}: array<u32, 4>;", "{n}[0] = 1u;"),
    ("var {n}: texture_2d<f32>;", "_ = textureDimensions({n});"),
    ("var {n}: sampler;", None),
    ("var {n}: texture_storage_2d<rgba8unorm, write>;",
     "textureStore({n}, vec2<i32>(0, 0), vec4<f32>(0.0));"),
    # a struct ending in a runtime-sized array: struct generation refuses it (documented
    # panic) unless encase is on and bytemuck off - the numbering verdict has to come first
    ("var<storage, read> {n}: Tail;", "_ = {n}.count;"),
    ("var<storage, read_write> {n}: Tail;", "{n}.items[0] = 1.0;"),
]
RTS_KINDS = (6, 7)
RTS_DECL = "struct Tail { count: u32, items: array<f32> }"


PREFIX_DECLS = ["var<private> scratch: f32;", "var<workgroup> tile: array<f32, 4>;",
                "var<push_constant> pc: vec4<f32>;", "var<private> flag: bool = false;"]


def make_source(pairs, used, kinds=None, entry=True, prefix=None):
    lines = []
    body = []
    if prefix is not None:
        # a module-scope variable that is no resource, declared BEFORE the resources
        lines.append(PREFIX_DECLS[prefix % len(PREFIX_DECLS)])
    if kinds and any(k in RTS_KINDS for k in kinds):
        lines.append(RTS_DECL)
    for k, (g, b) in enumerate(pairs):
        decl, use = KINDS[kinds[k] if kinds else 0]
        n = "v%d" % k
        # naga reads unsuffixed literals as i32: indices above i32::MAX need the `u` suffix
        gs = "%du" % g if (g > 2 ** 31 - 1 or (kinds and (g + k) % 3 == 0)) else "%d" % g
        bs = "%du" % b if (b > 2 ** 31 - 1 or (kinds and (b + k) % 3 == 1)) else "%d" % b
        lines.append("@group(%s) @binding(%s) %s" % (gs, bs, decl.format(n=n)))
        if used and use:
            body.append("    " + use.format(n=n))
    if entry:
        lines.append("@compute @workgroup_size(1)\nfn main() {\n%s\n}\n" % "\n".join(body))
    elif used:
        # declarations and a helper function only (a library file): the contract is the same
        lines.append("fn helper() {\n%s\n}\n" % "\n".join(body))
    return "\n".join(lines) + ("\n" if not entry else "")


def reference(pairs):
    """The contract, from the multiset alone."""
    seen = set()
    repeated = set()
    for p in pairs:
        if p in seen:
            repeated.add(p)
        seen.add(p)
    if repeated:
        return ("dup", sorted({b for (_, b) in repeated}))
    groups = sorted({g for (g, _) in pairs})
    if groups != list(range(len(groups))):
        return ("nonconsecutive", None)
    return ("ok", None)


LAYOUT_RE = re.compile(r"const\s+LAYOUT_DESCRIPTOR(\d+)\s*:")
BINDING_RE = re.compile(r"\bbinding:\s*(\d+)\s*,\s*visibility")


def bindings_in_text(text):
    """{group: [binding numbers in the layout descriptor]} or None if the shape is unknown."""
    marks = [(m.start(), int(m.group(1))) for m in LAYOUT_RE.finditer(text)]
    if not marks:
        return None
    out = {}
    for i, (pos, g) in enumerate(marks):
        end = text.find("impl BindGroup%d" % g, pos)
        if end < 0:
            end = marks[i + 1][0] if i + 1 < len(marks) else len(text)
        out[g] = [int(x) for x in BINDING_RE.findall(text[pos:end])]
    return out


ENTRY_RE = re.compile(r"BindGroupEntry\s*\{\s*binding:\s*(\d+)")


def entry_bindings_in_text(text):
    """{group: [binding numbers passed by from_bindings]} or None if the shape is unknown"""
    out = {}
    for m in re.finditer(r"impl\s+BindGroup(\d+)\s*\{", text):
        g = int(m.group(1))
        end = text.find("pub fn set", m.start())
        if end < 0:
            continue
        out[g] = [int(x) for x in ENTRY_RE.findall(text[m.start():end])]
    return out or None


def main(tier, replay, t0):
    binp = core.build_drive()
    r = core.rng("c11")
    cases = []  # (id, pairs, used, val, kinds)
    grid = [(g, b) for g in range(4) for b in range(3)]
    maxlen = 3 if tier == "quick" else 4
    n = 0
    for length in range(0, maxlen + 1):
        for seq in itertools.product(grid, repeat=length):
            # every sequence with validation off; with validation on & used-ness alternate so
            # that the exhaustive core stays affordable while every sequence sees both routes
            for val, used in ((None, False), ("all", True)):
                cases.append(("e%d" % n, list(seq), used, val, None))
                n += 1
            if length <= 3:
                for val, used in ((None, True), ("all", False)):
                    cases.append(("e%d" % n, list(seq), used, val, None))
                    n += 1
            if length <= 2:
                # no entry point at all
                for val, used in ((None, False), ("all", True)):
                    cases.append(("n%d" % n, list(seq), used, val, None))
                    n += 1
    exhaustive_n = len(cases)
    nrand = 300 if tier == "quick" else 6000
    pool = [0, 1, 2, 3, 4, 5, 7, 8, 15, 16, 31, 255, 256, 999, 65535, 65536, 2 ** 31 - 1,
            2 ** 31, 2 ** 32 - 2, 2 ** 32 - 1]
    for k in range(nrand):
        length = r.randint(1, 9)
        style = r.random()
        pairs = []
        if style < 0.45:
            ng = r.randint(1, 5)
            for _ in range(length):
                pairs.append((r.randrange(ng), r.choice(pool)))
        elif style < 0.7:
            for _ in range(length):
                pairs.append((r.choice(pool[:8]), r.choice(pool)))
        else:
            for _ in range(length):
                pairs.append((r.choice(pool), r.choice(pool)))
        if r.random() < 0.3 and pairs:
            pairs.append(r.choice(pairs))
        r.shuffle(pairs)
        kinds = [r.randrange(len(KINDS)) for _ in pairs]
        cases.append(("%s%d" % ("nr" if r.random() < 0.15 else "r", k), pairs, r.random() < 0.5,
                      r.choice([None, "all"]), kinds))
    # many groups: 11-16 dense groups in shuffled declaration order (one of them possibly
    # missing or doubled)
    for k in range(24 if tier == "quick" else 300):
        ng = r.randint(11, 16)
        pairs = [(g, r.choice([0, 0, 1, 5])) for g in range(ng)]
        what = r.random()
        if what < 0.2:
            pairs.pop(r.randrange(1, ng - 1))
        elif what < 0.35:
            pairs.append(r.choice(pairs))
        r.shuffle(pairs)
        cases.append(("g%d" % k, pairs, r.random() < 0.5, r.choice([None, "all"]),
                      [r.choice([0, 3, 4]) for _ in pairs]))
    # one crowded group: 18-34 variables, a later one repeating the index of the k-th declared
    for k in range(40 if tier == "quick" else 400):
        n_ = r.randint(18, 34)
        idxs = r.sample(range(0, 200), n_)
        pairs = [(0, b) for b in idxs]
        what = r.random()
        if what < 0.7:
            pos = r.choice([0, 15, 16, 17, 31, 32, n_ - 2, r.randrange(n_ - 1)])
            pos = min(pos, n_ - 2)
            pairs.insert(r.randint(pos + 1, len(pairs)), pairs[pos])
        cases.append(("b%d" % k, pairs, False, r.choice([None, "all"]),
                      [r.choice([0, 3, 4]) for _ in pairs]))
    prefix_of = {}
    for (cid, pairs, used, val, kinds) in cases:
        if cid[0] in "rg" and r.random() < 0.3:
            prefix_of[cid] = r.randrange(8)
    # derive switches are not part of the numbering contract: the verdict must not depend on them
    ropt = core.rng("c11-options")
    derive = {}
    for (cid, pairs, used, val, kinds) in cases:
        if kinds is not None:
            derive[cid] = ropt.choice([{}, {}, {"en": True}, {"bh": True}, {"bv": True, "bh": True},
                                       {"en": True, "bh": True}, {"se": True}])

    jobs = []
    meta = {}
    for cid, pairs, used, val, kinds in cases:
        src = make_source(pairs, used, kinds, entry=not cid.startswith("n"),
                          prefix=prefix_of.get(cid))
        opt = dict(derive.get(cid, {}))
        if val:
            opt["val"] = val
        jobs.append({"id": cid, "source": src, "opt": opt, "ref": True, "text": True})
        meta[cid] = (pairs, used, val, kinds, src)
    results, crashed = core.run_drive_sharded(binp, jobs, "c11/run")
    if crashed:
        raise core.Inconclusive("drive crashed: %r" % (crashed[:2],))
    if len(results) != len(jobs):
        raise core.Inconclusive("drive returned %d of %d results" % (len(results), len(jobs)))

    viol = []
    by_outcome = {}
    nontrivial = set()
    layout_checked = 0
    layout_unobserved = 0
    samples = []
    for cid, (pairs, used, val, kinds, src) in meta.items():
        res = results[cid]
        exp, rep = reference(pairs)
        ref = res.get("ref", {})
        got = res["result"]
        kind = res.get("err_kind")
        key = got if got != "err" else kind
        by_outcome[key] = by_outcome.get(key, 0) + 1
        if len(pairs) >= 2 and (exp != "ok" or pairs != sorted(pairs)):
            nontrivial.add(src)
        rp = {"source": src, "options": {"validate": val}, "pairs": pairs, "expected": exp,
              "observed": {k: res.get(k) for k in ("result", "err_kind", "err_payload", "panic")}}
        shape = "len%d%s%s" % (len(pairs), "+val" if val else "", "+used" if used else "")
        rp["options"].update(derive.get(cid, {}))
        if got == "panic":
            rts = bool(kinds) and any(k in RTS_KINDS for k in kinds)
            dv = derive.get(cid, {})
            documented = rts and (not dv.get("en") or dv.get("bh")) and \
                "untime-sized array" in (res.get("panic") or "")
            if exp == "ok" and documented and ref.get("parse") == "ok" and not (
                    val is not None and ref.get("valid_all") != "ok"):
                # numbering is fine; struct generation declines the option set (C09's business)
                by_outcome["declined-by-derive-options"] = \
                    by_outcome.get("declined-by-derive-options", 0) + 1
                continue
            viol.append(Violation("panic", exp, "generator panicked on %s multiset: %s" % (
                exp, res.get("panic")), rp))
            continue
        if ref.get("parse") != "ok":
            # index not representable: the front end's business (C17); must be a ParseError
            if kind != "ParseError":
                viol.append(Violation("frontend-reject-not-parse-error", shape,
                                      "naga rejects the text but the tool returned %s" % key, rp))
            continue
        validator_rejects = val is not None and ref.get("valid_all") != "ok"
        if validator_rejects:
            if kind != "ValidationError":
                viol.append(Violation("validator-reject-not-reported", exp,
                                      "validator rejects, tool returned %s" % key, rp))
            continue
        if kind == "ValidationError" or kind == "ParseError":
            viol.append(Violation("spurious-" + kind, exp, "naga accepts the module but the tool "
                                  "returned %s" % kind, rp))
            continue
        if exp == "dup":
            if kind != "DuplicateBinding":
                viol.append(Violation("dup-not-reported", "got=" + str(key),
                                      "repeated (group,binding) %s but result is %s" % (
                                          pairs, key), rp))
            elif res.get("err_payload") not in rep:
                viol.append(Violation("dup-wrong-index", "payload",
                                      "DuplicateBinding reports %r, repeated indices are %r" % (
                                          res.get("err_payload"), rep), rp))
        elif exp == "nonconsecutive":
            if kind != "NonConsecutiveBindGroups":
                viol.append(Violation("nonconsecutive-not-reported", "got=" + str(key),
                                      "groups %s are not 0..n-1 but result is %s" % (
                                          sorted({g for g, _ in pairs}), key), rp))
        else:
            if got != "ok":
                viol.append(Violation("valid-multiset-rejected", "got=" + str(key),
                                      "dense groups, unique slots, but result is %s" % key, rp))
                continue
            found = bindings_in_text(res.get("text", ""))
            want = {}
            for g, b in pairs:
                want.setdefault(g, []).append(b)
            if found is None:
                if pairs:
                    layout_unobserved += 1
            else:
                layout_checked += 1
                if {g: sorted(v) for g, v in found.items()} != \
                        {g: sorted(v) for g, v in want.items()}:
                    viol.append(Violation("ok-but-wrong-slots", shape,
                                          "declared %r, module has %r" % (want, found), rp))
                txt = res.get("text", "")
                pl = txt.find("fn create_pipeline_layout")
                if pl >= 0:
                    seq = [int(x) for x in re.findall(
                        r"BindGroup(\d+)\s*::\s*get_bind_group_layout", txt[pl:])]
                    if seq != sorted(want):
                        viol.append(Violation("ok-but-pipeline-layout-order", "n=%d" % len(want),
                                              "create_pipeline_layout lists the group layouts as "
                                              "%r, groups are %r" % (seq, sorted(want)), rp))
                eb = entry_bindings_in_text(res.get("text", ""))
                if eb is not None and {g: sorted(v) for g, v in eb.items()} != \
                        {g: sorted(v) for g, v in want.items()}:
                    viol.append(Violation("ok-but-wrong-entry-slots", shape,
                                          "declared %r, from_bindings supplies %r" % (want, eb),
                                          rp))
        if len(samples) < 6 and cid[0] in "rn":
            samples.append({"pairs": pairs, "validate": val, "used": used, "expected": exp,
                            "observed": key})
    ok_cases = by_outcome.get("ok", 0)
    inconclusive = []
    if ok_cases and layout_checked == 0:
        inconclusive.append("no Ok module had a recognisable layout descriptor "
                            "(%d unobserved)" % layout_unobserved)
    core.finish("C11", tier, "exploration", t0, viol, {
        "evaluations": len(jobs),
        "distinct_nontrivial": len(nontrivial),
        "rule": "all ordered sequences of <=%d variables over groups 0..3 x bindings 0..2, each "
                "with validation off/on and unused/used (%d sources, exhaustive), plus %d random "
                "multisets with indices up to u32::MAX and mixed resource kinds; non-trivial = "
                ">=2 variables and (repeated slot, non-dense groups, or declaration order != "
                "index order)" % (maxlen, exhaustive_n, nrand),
        "samples": samples,
        "sources": len(jobs), "exhaustive_core": True, "exhaustive_core_sources": exhaustive_n,
        "by_outcome": by_outcome, "ok_modules_layout_checked": layout_checked,
        "ok_modules_layout_unobserved": layout_unobserved,
    }, assumptions=[
        "naga's own parse/validate verdict (called directly by the driver) decides whether a "
        "text is within the front end's accepted language",
        "binding numbers of Ok modules are read from the LAYOUT_DESCRIPTORn constants in the "
        "returned text (behavioural confirmation on compiled modules is C04's)"],
        inconclusive=inconclusive)
