"""C14 - entry point metadata matches the shader's entry points.

Events (entry family, 4 option sets per shader): values of the ENTRY_* constants, the
*_WORKGROUP_SIZE constants, the ComputePipelineDescriptor recorded when the generated
compute::create_*_pipeline runs (with the ids of the shader module and pipeline layout it
created), the values returned by every <entry>_entry helper, and the fields of
vertex_state / fragment_state.
Oracle: names, workgroup sizes, written @locations and struct parameter lists from the spec.
"""
from vlib import core, probes
from vlib.core import Violation


def main(tier, replay, t0):
    camp = probes.campaign("entry", tier)
    viol = []
    evals = 0
    nontrivial = set()
    pipelines = 0
    samples = []
    lost = 0
    for c in camp.cases.values():
        if c.frontend_rejected:
            continue
        spec = c.spec
        for x in c.cfgs:
            if c.gen[x["id"]].get("result") != "ok":
                v = probes.refusal_violation(c, x, "entry point constant or helper")
                if v and spec.entries:
                    viol.append(v)
                continue
            base = {"case_id": c.id, "wgsl": c.wgsl, "options": x["opt"]}
            if not camp.module_ok(c.id, x["id"]):
                lost += 1
                diags = camp.rustc.get("%s/%s/m.rs" % (c.id, x["id"]), {}).get("diags", [])
                for d in diags:
                    if "ENTRY_" in (d.get("message") or "") or "ENTRY_" in (d.get("rendered")
                                                                             or ""):
                        viol.append(Violation("entry-constant-unusable", d.get("code") or "?",
                                              "the module does not compile because of an entry "
                                              "point constant: %s" % d.get("message"),
                                              dict(base, rustc=[y.get("message") for y in
                                                                diags][:3])))
                        break
                else:
                    bad = probes.unexpected_rejection(camp, c.id, x["id"])
                    if bad:
                        viol.append(Violation("module-rejected", bad[0].get("code") or "?",
                                              "a module of the entry-point family is rejected by "
                                              "rustc for a reason other than the permitted "
                                              "bytemuck checks: %s" % bad[0].get("message"),
                                              dict(base, rustc=[y.get("message") for y in
                                                                bad][:3])))
                continue
            ps = camp.probe_state(c.id, x["id"], "probe_c14")
            if not ps or not ps["accepted"]:
                d = (ps or {}).get("diags") or [{}]
                msg = d[0].get("message") or ""
                what = "ENTRY constant" if "ENTRY_" in msg else (
                    "targets/buffers arity" if "expected an array" in msg or "mismatched types"
                    in msg or "arguments" in msg else "surface")
                viol.append(Violation("entry-surface-mismatch", "%s:%s" % (
                    d[0].get("code") or "probe", what),
                    "the per-entry-point surface the property names does not type-check against "
                    "the shader (names, number of targets, number of step-mode parameters): %s"
                    % msg, dict(base, rustc=[y.get("message") for y in d][:3])))
                continue
            evs = camp.ev(c.id, x["id"], "C14")
            by = {}
            for e in evs:
                if "entry" in e:
                    by.setdefault(e["entry"], {}).setdefault(e["op"], []).append(e)
            for e, te in zip(spec.entries, c.truth["entries"]):
                evals += 1
                got = by.get(e.name, {})
                rp = dict(base, entry=e.name, stage=e.stage)
                if not e.name.isascii() or e.name != e.name.lower():
                    nontrivial.add((c.id, e.name))
                k = got.get("entry.const", [{}])[0].get("value")
                if k != e.name:
                    viol.append(Violation("entry-constant-value", e.stage,
                                          "ENTRY constant of %s evaluates to %r" % (e.name, k), rp))
                if e.stage == "compute":
                    pipelines += 1
                    nontrivial.add((c.id, e.name))
                    wg = got.get("workgroup", [{}])[0].get("size")
                    if wg != te["workgroup"]:
                        viol.append(Violation("workgroup-size", "dims%d" % len(e.workgroup_size),
                                              "@workgroup_size(%s) => expected %s, constant is %s"
                                              % (", ".join(map(str, e.workgroup_size)),
                                                 te["workgroup"], wg), rp))
                    # the events between pipeline.begin/end of this entry
                    inside = []
                    on = False
                    for ev in evs:
                        if ev["op"] == "pipeline.begin" and ev["entry"] == e.name:
                            on = True
                        elif ev["op"] == "pipeline.end" and ev["entry"] == e.name:
                            on = False
                        elif on:
                            inside.append(ev)
                    cp = [v for v in inside if v["op"] == "dev.create_compute_pipeline"]
                    sm = [v for v in inside if v["op"] == "dev.create_shader_module"]
                    pl = [v for v in inside if v["op"] == "dev.create_pipeline_layout"]
                    if len(cp) != 1:
                        viol.append(Violation("compute-pipeline-count", str(len(cp)),
                                              "create_%s_pipeline made %d pipelines" % (
                                                  e.name, len(cp)), rp))
                        continue
                    p = cp[0]
                    if p["entry_point"] != e.name:
                        viol.append(Violation("compute-pipeline-entry", "name",
                                              "pipeline constructor of %s targets %r" % (
                                                  e.name, p["entry_point"]), rp))
                    if not sm or p["module_id"] != sm[-1]["id"] or \
                            bytes.fromhex(sm[-1]["source_hex"]).decode("utf-8", "replace") != c.wgsl:
                        viol.append(Violation("compute-pipeline-module", "module",
                                              "pipeline of %s does not use a shader module created "
                                              "from this module's own source" % e.name, rp))
                    if not pl or p["layout_id"] != pl[-1]["id"]:
                        viol.append(Violation("compute-pipeline-layout", "layout",
                                              "pipeline of %s does not use the module's own "
                                              "pipeline layout" % e.name, rp))
                elif e.stage == "vertex":
                    ve = got.get("vertex.entry", [None])[0]
                    vs = got.get("vertex.state", [None])[0]
                    n = len(te["struct_params"])
                    if n >= 2:
                        nontrivial.add((c.id, e.name))
                    if ve is None or vs is None:
                        viol.append(Violation("vertex-helper-silent", "entry", "no event from "
                                              "%s_entry" % e.name, rp))
                        continue
                    if ve["entry_point"] != e.name or vs["entry_point"] != e.name:
                        viol.append(Violation("stage-name", "vertex", "%s_entry / vertex_state "
                                              "use the name %r / %r" % (
                                                  e.name, ve["entry_point"], vs["entry_point"]),
                                              rp))
                    if ve["n_buffers"] != n:
                        viol.append(Violation("vertex-buffer-count", "n=%d" % n,
                                              "%s has %d struct parameters, helper yields %d "
                                              "buffers" % (e.name, n, ve["n_buffers"]), rp))
                    want_steps = ["Vertex" if i % 2 == 0 else "Instance" for i in range(n)]
                    if ve["steps"] != want_steps:
                        viol.append(Violation("vertex-step-order", "n=%d" % n,
                                              "step modes given per parameter %s, buffers carry "
                                              "%s" % (want_steps, ve["steps"]), rp))
                    for f in ("module_same", "buffers_same", "constants_same"):
                        if not vs[f]:
                            viol.append(Violation("vertex-state-forwarding", f,
                                                  "vertex_state does not forward %s unchanged" %
                                                  f.replace("_same", ""), rp))
                else:
                    fe = got.get("fragment.entry", [None])[0]
                    fs = got.get("fragment.state", [None])[0]
                    if te["frag_targets"] >= 2:
                        nontrivial.add((c.id, e.name))
                    if fe is None or fs is None:
                        viol.append(Violation("fragment-helper-silent", "entry", "no event from "
                                              "%s_entry" % e.name, rp))
                        continue
                    if fe["entry_point"] != e.name or fs["entry_point"] != e.name:
                        viol.append(Violation("stage-name", "fragment", "%s_entry / "
                                              "fragment_state use %r / %r" % (
                                                  e.name, fe["entry_point"], fs["entry_point"]),
                                              rp))
                    if fe["n_targets"] != te["frag_targets"]:
                        viol.append(Violation("fragment-target-count", "n",
                                              "%s writes locations needing %d targets, helper "
                                              "asks for %d" % (e.name, te["frag_targets"],
                                                               fe["n_targets"]), rp))
                    for f in ("module_same", "targets_same", "constants_same"):
                        if not fs[f]:
                            viol.append(Violation("fragment-state-forwarding", f,
                                                  "fragment_state does not forward %s unchanged"
                                                  % f.replace("_same", ""), rp))
            if len(samples) < 3:
                samples.append({"case": c.id, "entries": [
                    (e.name, e.stage, te["workgroup"] or te["frag_targets"] or
                     te["struct_params"]) for e, te in zip(spec.entries, c.truth["entries"])]})
    inconclusive, ndecl = probes.decline_guard(camp, camp.cases.values())
    core.finish("C14", tier, "exploration", t0, viol, {
        "evaluations": evals, "distinct_nontrivial": len(nontrivial),
        "rule": "entry family x 4 option sets: 0-3 vertex, 0-2 fragment, 0-3 compute entry points "
                "per shader with ASCII, mixed-case and non-ASCII names; workgroup sizes from "
                "literals and constants with 1-3 dimensions; fragment results none/scalar/vector/"
                "struct with sparse, permuted locations and builtins; vertex entries with 0-3 "
                "struct parameters and builtin parameters; non-trivial = compute entry, entry "
                "with non-ASCII or mixed-case name, >= 2 struct parameters or >= 2 targets",
        "samples": samples, "entries": evals, "pipelines": pipelines,
        "modules_lost_to_compile_errors": lost, "cases_declined_by_tool": ndecl,
        "campaign": camp.stats,
    }, assumptions=["workgroup sizes given by overrides are outside the statement and not "
                    "generated"], inconclusive=inconclusive)
