//! Stand-in for `nalgebra` (see Cargo.toml description).
use core::fmt::Debug;

/// Statically sized R x C matrix, column-major like nalgebra's `ArrayStorage`.
#[repr(transparent)]
#[derive(Debug, Clone, Copy, PartialEq)]
pub struct SMatrix<T, const R: usize, const C: usize>(pub [[T; R]; C]);

/// Statically sized column vector.
pub type SVector<T, const N: usize> = SMatrix<T, N, 1>;

impl<T: Copy + Default, const R: usize, const C: usize> Default for SMatrix<T, R, C> {
    fn default() -> Self {
        SMatrix([[T::default(); R]; C])
    }
}

impl<T, const R: usize, const C: usize> SMatrix<T, R, C> {
    pub fn from_columns_array(cols: [[T; R]; C]) -> Self {
        SMatrix(cols)
    }
}

unsafe impl<T: bytemuck::Zeroable, const R: usize, const C: usize> bytemuck::Zeroable for SMatrix<T, R, C> {}
unsafe impl<T: bytemuck::Pod, const R: usize, const C: usize> bytemuck::Pod for SMatrix<T, R, C> {}

impl<T: serde::Serialize, const R: usize, const C: usize> serde::Serialize for SMatrix<T, R, C> {
    fn serialize<S: serde::Serializer>(&self, s: S) -> Result<S::Ok, S::Error> {
        use serde::ser::SerializeSeq;
        let mut seq = s.serialize_seq(Some(R * C))?;
        for c in &self.0 {
            for v in c {
                seq.serialize_element(v)?;
            }
        }
        seq.end()
    }
}

impl<'de, T: serde::Deserialize<'de> + Copy + Default, const R: usize, const C: usize>
    serde::Deserialize<'de> for SMatrix<T, R, C>
{
    fn deserialize<D: serde::Deserializer<'de>>(d: D) -> Result<Self, D::Error> {
        let v: Vec<T> = Vec::deserialize(d)?;
        if v.len() != R * C {
            return Err(serde::de::Error::custom("wrong element count"));
        }
        let mut m = [[T::default(); R]; C];
        for (i, x) in v.into_iter().enumerate() {
            m[i / R][i % R] = x;
        }
        Ok(SMatrix(m))
    }
}

impl<T, const N: usize> AsRef<[T; N]> for SMatrix<T, N, 1> {
    fn as_ref(&self) -> &[T; N] {
        &self.0[0]
    }
}
impl<T, const N: usize> AsMut<[T; N]> for SMatrix<T, N, 1> {
    fn as_mut(&mut self) -> &mut [T; N] {
        &mut self.0[0]
    }
}
impl<T, const N: usize> From<[T; N]> for SMatrix<T, N, 1> {
    fn from(a: [T; N]) -> Self {
        SMatrix([a])
    }
}

macro_rules! mats {
    ($(($c:literal, $r:literal)),*) => {$(
        impl<T> AsRef<[[T; $r]; $c]> for SMatrix<T, $r, $c> {
            fn as_ref(&self) -> &[[T; $r]; $c] { &self.0 }
        }
        impl<T> AsMut<[[T; $r]; $c]> for SMatrix<T, $r, $c> {
            fn as_mut(&mut self) -> &mut [[T; $r]; $c] { &mut self.0 }
        }
        impl<T> From<[[T; $r]; $c]> for SMatrix<T, $r, $c> {
            fn from(a: [[T; $r]; $c]) -> Self { SMatrix(a) }
        }
        encase::impl_matrix!($c, $r, SMatrix<T, $r, $c>; using AsRef AsMut From);
    )*};
}
mats!((2, 2), (2, 3), (2, 4), (3, 2), (3, 3), (3, 4), (4, 2), (4, 3), (4, 4));

encase::impl_vector!(2, SMatrix<T, 2, 1>; using AsRef AsMut From);
encase::impl_vector!(3, SMatrix<T, 3, 1>; using AsRef AsMut From);
encase::impl_vector!(4, SMatrix<T, 4, 1>; using AsRef AsMut From);

#[allow(dead_code)]
fn _assert_debug<T: Debug>() {}
