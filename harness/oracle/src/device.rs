//! Replay of recorded descriptors on a real wgpu device (whatever adapter the sandbox offers:
//! here mesa llvmpipe through GL/EGL), inside validation error scopes.  End-to-end confirmation
//! and calibration of the transcribed rules; never the source of a verdict by itself.
use std::borrow::Cow;
use std::collections::HashMap;
use std::io::{BufRead, Write};

use serde_json::{json, Value};

fn scoped<T>(device: &wgpu::Device, f: impl FnOnce() -> T) -> (T, Option<String>) {
    device.push_error_scope(wgpu::ErrorFilter::Validation);
    let v = f();
    let e = futures::executor::block_on(device.pop_error_scope());
    (v, e.map(|e| format!("{e}")))
}

fn attributable(msg: &str) -> bool {
    let m = msg.to_lowercase();
    !(m.contains("feature")
        || m.contains("capabilit")
        || m.contains("downlevel")
        || m.contains("limit")
        || m.contains("not supported")
        || m.contains("unsupported")
        || m.contains("exceeds"))
}

fn rec(call: &str, what: Value, err: Option<String>) -> Value {
    match err {
        None => json!({"call": call, "what": what, "ok": true}),
        Some(e) => json!({"call": call, "what": what, "ok": false, "attributable": attributable(&e),
                          "err": e.chars().take(700).collect::<String>()}),
    }
}

pub fn mode_device(inp: &str, outp: &str) -> i32 {
    let mut out = std::io::BufWriter::new(std::fs::File::create(outp).expect("create output"));
    let instance = wgpu::Instance::new(&wgpu::InstanceDescriptor::default());
    let adapter = match futures::executor::block_on(
        instance.request_adapter(&wgpu::RequestAdapterOptions::default()),
    ) {
        Some(a) => a,
        None => {
            writeln!(out, "{}", json!({"adapter": null})).unwrap();
            return 0;
        }
    };
    let info = adapter.get_info();
    let (device, _queue) = match futures::executor::block_on(adapter.request_device(
        &wgpu::DeviceDescriptor {
            label: None,
            required_features: adapter.features(),
            required_limits: adapter.limits(),
            memory_hints: Default::default(),
        },
        None,
    )) {
        Ok(d) => d,
        Err(e) => {
            writeln!(out, "{}", json!({"adapter": info.name, "device_error": format!("{e}")})).unwrap();
            return 0;
        }
    };
    writeln!(
        out,
        "{}",
        json!({"adapter": info.name, "backend": format!("{:?}", info.backend),
               "features": format!("{:?}", device.features()),
               "max_bind_groups": device.limits().max_bind_groups,
               "max_push_constant_size": device.limits().max_push_constant_size,
               "max_bindings_per_bind_group": device.limits().max_bindings_per_bind_group})
    )
    .unwrap();
    let f = std::fs::File::open(inp).expect("open input");
    for line in std::io::BufReader::new(f).lines() {
        let line = line.unwrap();
        if line.trim().is_empty() {
            continue;
        }
        let job: Value = serde_json::from_str(&line).expect("job json");
        let mut calls = Vec::new();
        // bind group layouts
        let mut bgls = Vec::new();
        let mut all_ok = true;
        if let Some(groups) = job.get("groups").and_then(|g| g.as_array()) {
            for (gi, g) in groups.iter().enumerate() {
                let entries: Vec<wgpu::BindGroupLayoutEntry> = g
                    .as_array()
                    .unwrap()
                    .iter()
                    .filter_map(|e| serde_json::from_value(e.clone()).ok())
                    .collect();
                let (bgl, err) = scoped(&device, || {
                    device.create_bind_group_layout(&wgpu::BindGroupLayoutDescriptor {
                        label: None,
                        entries: &entries,
                    })
                });
                if err.is_some() {
                    all_ok = false;
                }
                calls.push(rec("create_bind_group_layout", json!({"group": gi}), err));
                bgls.push(bgl);
            }
        }
        let ranges: Vec<wgpu::PushConstantRange> = job
            .get("push_constant_ranges")
            .and_then(|r| r.as_array())
            .map(|rs| {
                rs.iter()
                    .map(|r| wgpu::PushConstantRange {
                        stages: wgpu::ShaderStages::from_bits_truncate(
                            r["stages"].as_u64().unwrap_or(0) as u32,
                        ),
                        range: (r["start"].as_u64().unwrap_or(0) as u32)
                            ..(r["end"].as_u64().unwrap_or(0) as u32),
                    })
                    .collect()
            })
            .unwrap_or_default();
        let refs: Vec<&wgpu::BindGroupLayout> = bgls.iter().collect();
        let (pl, err) = scoped(&device, || {
            device.create_pipeline_layout(&wgpu::PipelineLayoutDescriptor {
                label: None,
                bind_group_layouts: &refs,
                push_constant_ranges: &ranges,
            })
        });
        if err.is_some() {
            all_ok = false;
        }
        calls.push(rec("create_pipeline_layout", json!({}), err));
        if let Some(src) = job.get("wgsl").and_then(|s| s.as_str()) {
            let (module, err) = scoped(&device, || {
                device.create_shader_module(wgpu::ShaderModuleDescriptor {
                    label: None,
                    source: wgpu::ShaderSource::Wgsl(Cow::Borrowed(src)),
                })
            });
            let module_ok = err.is_none();
            calls.push(rec("create_shader_module", json!({}), err));
            if module_ok && all_ok {
                for c in job.get("compute").and_then(|c| c.as_array()).unwrap_or(&vec![]) {
                    let mut constants: HashMap<String, f64> = HashMap::new();
                    if let Some(m) = c.get("constants").and_then(|m| m.as_object()) {
                        for (k, v) in m {
                            let bits = u64::from_str_radix(v.as_str().unwrap_or("0"), 16).unwrap_or(0);
                            constants.insert(k.clone(), f64::from_bits(bits));
                        }
                    }
                    let ep = c["entry"].as_str().unwrap_or("");
                    let (_p, err) = scoped(&device, || {
                        device.create_compute_pipeline(&wgpu::ComputePipelineDescriptor {
                            label: None,
                            layout: Some(&pl),
                            module: &module,
                            entry_point: Some(ep),
                            compilation_options: wgpu::PipelineCompilationOptions {
                                constants: &constants,
                                ..Default::default()
                            },
                            cache: None,
                        })
                    });
                    calls.push(rec("create_compute_pipeline", json!({"entry": ep}), err));
                }
                for r in job.get("render").and_then(|c| c.as_array()).unwrap_or(&vec![]) {
                    let mut constants: HashMap<String, f64> = HashMap::new();
                    if let Some(m) = r.get("constants").and_then(|m| m.as_object()) {
                        for (k, v) in m {
                            let bits = u64::from_str_radix(v.as_str().unwrap_or("0"), 16).unwrap_or(0);
                            constants.insert(k.clone(), f64::from_bits(bits));
                        }
                    }
                    let ep = r["entry"].as_str().unwrap_or("");
                    let mut attr_store: Vec<Vec<wgpu::VertexAttribute>> = Vec::new();
                    let bufs = r.get("buffers").and_then(|b| b.as_array()).cloned().unwrap_or_default();
                    for b in &bufs {
                        attr_store.push(
                            b["attributes"]
                                .as_array()
                                .unwrap()
                                .iter()
                                .filter_map(|a| {
                                    Some(wgpu::VertexAttribute {
                                        format: serde_json::from_value(json!(a["format"]
                                            .as_str()?
                                            .to_lowercase()))
                                        .ok()?,
                                        offset: a["offset"].as_u64()?,
                                        shader_location: a["location"].as_u64()? as u32,
                                    })
                                })
                                .collect(),
                        );
                    }
                    let layouts: Vec<wgpu::VertexBufferLayout> = bufs
                        .iter()
                        .zip(attr_store.iter())
                        .map(|(b, attrs)| wgpu::VertexBufferLayout {
                            array_stride: b["stride"].as_u64().unwrap_or(0),
                            step_mode: if b["step"] == "Instance" {
                                wgpu::VertexStepMode::Instance
                            } else {
                                wgpu::VertexStepMode::Vertex
                            },
                            attributes: attrs,
                        })
                        .collect();
                    let (_p, err) = scoped(&device, || {
                        device.create_render_pipeline(&wgpu::RenderPipelineDescriptor {
                            label: None,
                            layout: Some(&pl),
                            vertex: wgpu::VertexState {
                                module: &module,
                                entry_point: Some(ep),
                                compilation_options: wgpu::PipelineCompilationOptions {
                                    constants: &constants,
                                    ..Default::default()
                                },
                                buffers: &layouts,
                            },
                            primitive: Default::default(),
                            // a vertex-only pipeline needs some attachment
                            depth_stencil: Some(wgpu::DepthStencilState {
                                format: wgpu::TextureFormat::Depth32Float,
                                depth_write_enabled: true,
                                depth_compare: wgpu::CompareFunction::Always,
                                stencil: Default::default(),
                                bias: Default::default(),
                            }),
                            multisample: Default::default(),
                            fragment: None,
                            multiview: None,
                            cache: None,
                        })
                    });
                    calls.push(rec("create_render_pipeline", json!({"entry": ep}), err));
                }
            }
        }
        writeln!(out, "{}", json!({"id": job["id"], "calls": calls})).unwrap();
    }
    out.flush().unwrap();
    0
}
