//! oracle: reference verdicts that do not depend on the generator under test.
//!
//!   oracle stage  <in.jsonl> <out.jsonl>   wgpu-core Interface::check_stage on recorded layouts,
//!                                          derived layouts, naga facts (global use, layouts,
//!                                          constants)
//!   oracle device <in.jsonl> <out.jsonl>   replay recorded descriptors on a real wgpu device
//!                                          (validation error scopes)
use std::io::{BufRead, Write};

use serde_json::{json, Value};
use wgpu_core::validation::{BindingLayoutSource, Interface, InterfaceVar, StageError, StageIo};

mod device;

fn stage_bit(s: naga::ShaderStage) -> wgpu_types::ShaderStages {
    match s {
        naga::ShaderStage::Vertex => wgpu_types::ShaderStages::VERTEX,
        naga::ShaderStage::Fragment => wgpu_types::ShaderStages::FRAGMENT,
        naga::ShaderStage::Compute => wgpu_types::ShaderStages::COMPUTE,
    }
}

fn stage_name(s: naga::ShaderStage) -> &'static str {
    match s {
        naga::ShaderStage::Vertex => "vertex",
        naga::ShaderStage::Fragment => "fragment",
        naga::ShaderStage::Compute => "compute",
    }
}

fn classify(e: &StageError) -> &'static str {
    match e {
        StageError::Binding(..) => "binding",
        StageError::Filtering { .. } => "filtering",
        StageError::MissingEntryPoint(_) => "missing_entry_point",
        StageError::Input { .. } => "input",
        StageError::InvalidWorkgroupSize { .. } => "workgroup_size",
        StageError::TooManyVaryings { .. } => "varyings",
        _ => "other",
    }
}

fn big_limits() -> wgpu_types::Limits {
    let mut l = wgpu_types::Limits::default();
    l.max_bind_groups = 8;
    l.max_bindings_per_bind_group = u32::MAX;
    l.max_push_constant_size = 256;
    l.max_inter_stage_shader_components = 1024;
    l.max_compute_invocations_per_workgroup = 1 << 20;
    l.max_compute_workgroup_size_x = 1 << 16;
    l.max_compute_workgroup_size_y = 1 << 16;
    l.max_compute_workgroup_size_z = 1 << 16;
    l
}

fn naga_facts(module: &naga::Module, info: &naga::valid::ModuleInfo) -> Value {
    // which globals does naga's own analysis consider used, per entry point
    let mut uses = serde_json::Map::new();
    for (i, ep) in module.entry_points.iter().enumerate() {
        let fi = info.get_entry_point(i);
        let mut names = Vec::new();
        for (h, g) in module.global_variables.iter() {
            if !fi[h].is_empty() {
                names.push(g.name.clone().unwrap_or_default());
            }
        }
        uses.insert(
            format!("{}:{}", stage_name(ep.stage), ep.name),
            json!(names),
        );
    }
    // struct layouts from naga's layouter
    let mut layouter = naga::proc::Layouter::default();
    let mut layouts = serde_json::Map::new();
    if layouter.update(module.to_ctx()).is_ok() {
        for (h, t) in module.types.iter() {
            if let naga::TypeInner::Struct { members, span } = &t.inner {
                layouts.insert(
                    t.name.clone().unwrap_or_default(),
                    json!({"size": layouter[h].size, "span": span,
                           "align": layouter[h].alignment.round_up(1),
                           "offsets": members.iter().map(|m| m.offset).collect::<Vec<_>>(),
                           "members": members.iter().map(|m| m.name.clone()).collect::<Vec<_>>()}),
                );
            }
        }
    }
    let mut global_sizes = serde_json::Map::new();
    for (_, g) in module.global_variables.iter() {
        global_sizes.insert(
            g.name.clone().unwrap_or_default(),
            json!(module.types[g.ty].inner.size(module.to_ctx())),
        );
    }
    // constants as evaluated by naga
    let mut consts = serde_json::Map::new();
    for (_, c) in module.constants.iter() {
        let v = match &module.global_expressions[c.init] {
            naga::Expression::Literal(l) => match l {
                naga::Literal::F64(v) => json!({"ty": "f64", "bits": format!("{:016x}", v.to_bits())}),
                naga::Literal::F32(v) => json!({"ty": "f32", "bits": format!("{:016x}", v.to_bits() as u64)}),
                naga::Literal::U32(v) => json!({"ty": "u32", "bits": format!("{:016x}", *v as u64)}),
                naga::Literal::I32(v) => json!({"ty": "i32", "bits": format!("{:016x}", *v as u32 as u64)}),
                naga::Literal::U64(v) => json!({"ty": "u64", "bits": format!("{:016x}", *v)}),
                naga::Literal::I64(v) => json!({"ty": "i64", "bits": format!("{:016x}", *v as u64)}),
                naga::Literal::Bool(v) => json!({"ty": "bool", "bits": format!("{:016x}", *v as u64)}),
                naga::Literal::AbstractInt(v) => json!({"ty": "abstract-int", "bits": format!("{:016x}", *v as u64)}),
                naga::Literal::AbstractFloat(v) => json!({"ty": "abstract-float", "bits": format!("{:016x}", v.to_bits())}),
            },
            naga::Expression::ZeroValue(ty) => match &module.types[*ty].inner {
                naga::TypeInner::Scalar(s) => {
                    let name = match (s.kind, s.width) {
                        (naga::ScalarKind::Float, 4) => "f32",
                        (naga::ScalarKind::Float, 8) => "f64",
                        (naga::ScalarKind::Sint, 4) => "i32",
                        (naga::ScalarKind::Uint, 4) => "u32",
                        (naga::ScalarKind::Sint, 8) => "i64",
                        (naga::ScalarKind::Uint, 8) => "u64",
                        (naga::ScalarKind::Bool, _) => "bool",
                        _ => "other",
                    };
                    json!({"ty": name, "bits": "0000000000000000"})
                }
                _ => json!({"ty": "non-scalar"}),
            },
            _ => json!({"ty": "non-scalar"}),
        };
        if let Some(n) = &c.name {
            consts.insert(n.clone(), v);
        }
    }
    json!({"uses": uses, "layouts": layouts, "consts": consts, "global_sizes": global_sizes})
}

fn mode_stage(inp: &str, outp: &str) -> i32 {
    let f = std::fs::File::open(inp).expect("open input");
    let mut out = std::io::BufWriter::new(std::fs::File::create(outp).expect("create output"));
    for line in std::io::BufReader::new(f).lines() {
        let line = line.unwrap();
        if line.trim().is_empty() {
            continue;
        }
        let job: Value = serde_json::from_str(&line).expect("job json");
        let id = job["id"].clone();
        let src = job["wgsl"].as_str().unwrap_or("");
        let module = match naga::front::wgsl::parse_str(src) {
            Ok(m) => m,
            Err(e) => {
                writeln!(out, "{}", json!({"id": id, "error": format!("parse: {e}")})).unwrap();
                continue;
            }
        };
        let info = match naga::valid::Validator::new(
            naga::valid::ValidationFlags::all(),
            naga::valid::Capabilities::all(),
        )
        .validate(&module)
        {
            Ok(i) => i,
            Err(e) => {
                writeln!(out, "{}", json!({"id": id, "error": format!("validate: {e:?}")})).unwrap();
                continue;
            }
        };
        let limits = big_limits();
        let iface = Interface::new(&module, &info, limits.clone());
        let mut rec = json!({"id": id});
        if job.get("facts").and_then(|v| v.as_bool()).unwrap_or(false) {
            rec["facts"] = naga_facts(&module, &info);
        }
        // recorded layouts -> EntryMaps (type is unnameable: obtained from new_derived)
        let mut results = Vec::new();
        if let Some(groups) = job.get("groups").and_then(|g| g.as_array()) {
            let BindingLayoutSource::Derived(mut maps) = BindingLayoutSource::new_derived(&limits)
            else {
                unreachable!()
            };
            let mut harness_error = None;
            for (gi, g) in groups.iter().enumerate().take(8) {
                for e in g.as_array().unwrap() {
                    match serde_json::from_value::<wgpu_types::BindGroupLayoutEntry>(e.clone()) {
                        Ok(entry) => {
                            // a duplicate binding number replaces: reported separately by rules
                            match maps[gi].entry(entry.binding) {
                                indexmap::map::Entry::Occupied(mut o) => {
                                    o.insert(entry);
                                }
                                indexmap::map::Entry::Vacant(v) => {
                                    v.insert(entry);
                                }
                            }
                        }
                        Err(err) => harness_error = Some(format!("entry json: {err}: {e}")),
                    }
                }
                maps[gi].sort();
            }
            if let Some(h) = harness_error {
                rec["harness_error"] = json!(h);
            }
            let n = groups.len().min(8);
            for ep in module.entry_points.iter() {
                let provided: arrayvec::ArrayVec<&_, 8> = maps.iter().take(n).collect();
                let mut src = BindingLayoutSource::Provided(provided);
                let mut sizes = Default::default();
                let mut inputs: StageIo = Default::default();
                let key = ep.name.clone();
                if let Some(vin) = job.get("vertex_inputs").and_then(|v| v.get(&key)) {
                    for pair in vin.as_array().unwrap() {
                        let loc = pair[0].as_u64().unwrap() as u32;
                        let name = pair[1].as_str().unwrap_or("").to_lowercase();
                        match serde_json::from_value::<wgpu_types::VertexFormat>(json!(name)) {
                            Ok(fmt) => {
                                inputs.insert(loc, InterfaceVar::vertex_attribute(fmt));
                            }
                            Err(e) => rec["harness_error"] = json!(format!("format {name}: {e}")),
                        }
                    }
                }
                let r = iface.check_stage(
                    &mut src,
                    &mut sizes,
                    &ep.name,
                    stage_bit(ep.stage),
                    inputs,
                    Some(wgpu_types::CompareFunction::Always),
                );
                results.push(match r {
                    Ok(_) => json!({"entry": ep.name, "stage": stage_name(ep.stage), "ok": true}),
                    Err(e) => json!({"entry": ep.name, "stage": stage_name(ep.stage), "ok": false,
                                     "kind": classify(&e), "err": format!("{e}"),
                                     "debug": format!("{e:?}").chars().take(400).collect::<String>()}),
                });
            }
            rec["check_stage"] = json!(results);
        }
        // pipeline-overridable constants: naga's own resolution of a recorded map
        if let Some(ovs) = job.get("overrides").and_then(|o| o.as_array()) {
            let mut outs = Vec::new();
            for o in ovs {
                let mut map = naga::back::PipelineConstants::default();
                if let Some(m) = o.get("map").and_then(|m| m.as_object()) {
                    for (k, v) in m {
                        let bits = u64::from_str_radix(v.as_str().unwrap_or("0"), 16).unwrap_or(0);
                        map.insert(k.clone(), f64::from_bits(bits));
                    }
                }
                let r = naga::back::pipeline_constants::process_overrides(&module, &info, &map);
                outs.push(match r {
                    Err(e) => json!({"variant": o["variant"], "ok": false, "err": format!("{e}")}),
                    Ok((m2, _)) => {
                        let mut consts = serde_json::Map::new();
                        for (_, ov) in module.overrides.iter() {
                            let name = ov.name.clone().unwrap_or_default();
                            for (_, c) in m2.constants.iter() {
                                if c.name.as_deref() == Some(name.as_str()) {
                                    let v = match &m2.global_expressions[c.init] {
                                        naga::Expression::Literal(l) => match l {
                                            naga::Literal::F32(v) => json!(*v as f64),
                                            naga::Literal::F64(v) => json!(*v),
                                            naga::Literal::U32(v) => json!(*v as f64),
                                            naga::Literal::I32(v) => json!(*v as f64),
                                            naga::Literal::Bool(v) => json!(if *v { 1.0 } else { 0.0 }),
                                            _ => json!(null),
                                        },
                                        _ => json!(null),
                                    };
                                    consts.insert(name.clone(), v);
                                }
                            }
                        }
                        json!({"variant": o["variant"], "ok": true, "consts": consts})
                    }
                });
            }
            rec["overrides"] = json!(outs);
        }
        // derived layouts (informational)
        if job.get("derive").and_then(|v| v.as_bool()).unwrap_or(false) {
            let mut derived = BindingLayoutSource::new_derived(&limits);
            let mut derr = Vec::new();
            for ep in module.entry_points.iter() {
                let mut sizes = Default::default();
                if let Err(e) = iface.check_stage(
                    &mut derived,
                    &mut sizes,
                    &ep.name,
                    stage_bit(ep.stage),
                    Default::default(),
                    Some(wgpu_types::CompareFunction::Always),
                ) {
                    if classify(&e) == "binding" {
                        derr.push(format!("{e}"));
                    }
                }
            }
            if let BindingLayoutSource::Derived(maps) = derived {
                let mut d = Vec::new();
                for m in maps.iter() {
                    d.push(m.values().map(|e| serde_json::to_value(e).unwrap()).collect::<Vec<_>>());
                }
                rec["derived"] = json!(d);
            }
            rec["derive_errors"] = json!(derr);
        }
        writeln!(out, "{rec}").unwrap();
    }
    out.flush().unwrap();
    0
}

fn main() {
    let args: Vec<String> = std::env::args().collect();
    if args.len() < 4 {
        eprintln!("usage: oracle stage|device <in.jsonl> <out.jsonl>");
        std::process::exit(2);
    }
    let code = match args[1].as_str() {
        "stage" => mode_stage(&args[2], &args[3]),
        "device" => device::mode_device(&args[2], &args[3]),
        _ => 2,
    };
    std::process::exit(code);
}
