//! Inventory of the public items of a generated module (syn AST, not text): which structs,
//! constants, functions, modules and impl blocks exist, with derive lists, repr, field names
//! and types.  Observation only.
use quote::ToTokens;
use serde_json::{json, Value};

fn ts(t: &impl ToTokens) -> String {
    t.to_token_stream().to_string()
}

fn attrs_info(attrs: &[syn::Attribute]) -> (Vec<String>, Vec<String>, Vec<String>) {
    let mut derives = Vec::new();
    let mut reprs = Vec::new();
    let mut others = Vec::new();
    for a in attrs {
        if a.path().is_ident("derive") {
            let _ = a.parse_nested_meta(|m| {
                derives.push(m.path.to_token_stream().to_string().replace(' ', ""));
                Ok(())
            });
        } else if a.path().is_ident("repr") {
            let _ = a.parse_nested_meta(|m| {
                reprs.push(m.path.to_token_stream().to_string());
                Ok(())
            });
        } else {
            others.push(a.to_token_stream().to_string());
        }
    }
    (derives, reprs, others)
}

fn items(list: &[syn::Item], depth: usize) -> Value {
    let mut structs = Vec::new();
    let mut consts = Vec::new();
    let mut fns = Vec::new();
    let mut mods = serde_json::Map::new();
    let mut impls = Vec::new();
    let mut asserts = Vec::new();
    let mut other = Vec::new();
    for it in list {
        match it {
            syn::Item::Struct(s) => {
                let (derives, reprs, others) = attrs_info(&s.attrs);
                let fields: Vec<Value> = s
                    .fields
                    .iter()
                    .map(|f| {
                        json!({
                            "name": f.ident.as_ref().map(|i| i.to_string()),
                            "ty": ts(&f.ty),
                            "pub": matches!(f.vis, syn::Visibility::Public(_)),
                            "attrs": f.attrs.iter().map(|a| ts(a)).collect::<Vec<_>>(),
                        })
                    })
                    .collect();
                structs.push(json!({
                    "name": s.ident.to_string(),
                    "pub": matches!(s.vis, syn::Visibility::Public(_)),
                    "derives": derives, "repr": reprs, "attrs": others, "fields": fields,
                    "generics": ts(&s.generics),
                }));
            }
            syn::Item::Const(c) => {
                if c.ident == "_" {
                    asserts.push(ts(&c.expr));
                } else {
                    let mut v = json!({
                        "name": c.ident.to_string(),
                        "pub": matches!(c.vis, syn::Visibility::Public(_)),
                        "ty": ts(&c.ty),
                        "expr": ts(&c.expr).chars().take(300).collect::<String>(),
                    });
                    // `include_str!("path")`: the value of the path literal
                    if let syn::Expr::Macro(m) = &*c.expr {
                        if m.mac.path.is_ident("include_str") {
                            if let Ok(l) = m.mac.parse_body::<syn::LitStr>() {
                                v["include_str"] = json!(l.value());
                            }
                        }
                    }
                    if let syn::Expr::Lit(l) = &*c.expr {
                        if let syn::Lit::Str(s) = &l.lit {
                            v["str_len"] = json!(s.value().len());
                            v["str_sha"] = json!(crate::hash_hex(s.value().as_bytes()));
                        }
                    }
                    consts.push(v);
                }
            }
            syn::Item::Fn(f) => {
                fns.push(json!({
                    "name": f.sig.ident.to_string(),
                    "pub": matches!(f.vis, syn::Visibility::Public(_)),
                    "sig": ts(&f.sig),
                }));
            }
            syn::Item::Mod(m) => {
                if let Some((_, inner)) = &m.content {
                    if depth < 3 {
                        mods.insert(m.ident.to_string(), items(inner, depth + 1));
                    }
                }
            }
            syn::Item::Impl(i) => {
                let names: Vec<String> = i
                    .items
                    .iter()
                    .map(|x| match x {
                        syn::ImplItem::Const(c) => format!("const {}", c.ident),
                        syn::ImplItem::Fn(f) => format!("fn {}", f.sig.ident),
                        _ => "other".to_string(),
                    })
                    .collect();
                impls.push(json!({
                    "self_ty": ts(&i.self_ty),
                    "trait": i.trait_.as_ref().map(|t| ts(&t.1)),
                    "items": names,
                }));
            }
            x => other.push(ts(x).chars().take(60).collect::<String>()),
        }
    }
    json!({"structs": structs, "consts": consts, "fns": fns, "mods": mods, "impls": impls,
           "asserts": asserts, "other": other})
}

/// Canonical form of the file with the top-level `SOURCE` constant removed.
pub fn canon_without_source(text: &str) -> Option<String> {
    let mut f = syn::parse_file(text).ok()?;
    f.items.retain(|it| !matches!(it, syn::Item::Const(c) if c.ident == "SOURCE"));
    Some(prettyplease::unparse(&f))
}

/// Projections for C09: the file with (a) derive lists emptied and layout assertions removed,
/// (b) additionally every struct field type blanked.  Returned as canonical text.
pub fn projections(text: &str) -> Option<(String, String)> {
    let mut f = syn::parse_file(text).ok()?;
    fn walk(items: &mut Vec<syn::Item>, blank_types: bool) {
        items.retain(|it| !matches!(it, syn::Item::Const(c) if c.ident == "_"));
        for it in items.iter_mut() {
            match it {
                syn::Item::Struct(s) => {
                    s.attrs.retain(|a| !a.path().is_ident("derive"));
                    if blank_types {
                        for fl in s.fields.iter_mut() {
                            fl.ty = syn::parse_quote!(());
                        }
                    }
                }
                syn::Item::Mod(m) => {
                    if let Some((_, inner)) = &mut m.content {
                        walk(inner, blank_types);
                    }
                }
                _ => {}
            }
        }
    }
    let mut a = f.clone();
    walk(&mut a.items, false);
    walk(&mut f.items, true);
    Some((prettyplease::unparse(&a), prettyplease::unparse(&f)))
}

pub fn inventory(text: &str) -> Value {
    match syn::parse_file(text) {
        Ok(f) => items(&f.items, 0),
        Err(e) => json!({"parse_error": e.to_string()}),
    }
}
