//! Mutation campaign for C17: corrupt valid shaders, run the generator with validation off and
//! on, run naga directly on the same text, and record what each of them did.  The records are
//! observations only; the rule is applied by checkers/c17.py.
use std::io::{BufWriter, Write};

use serde_json::{json, Value};
use wgsl_to_wgpu::{create_shader_module_embedded, CreateModuleError, WriteOptions};

use crate::{hash_hex, take_panic_msg};

pub struct Rng(u64);
impl Rng {
    pub fn new(seed: u64) -> Self {
        Rng(seed.wrapping_mul(0x9e3779b97f4a7c15) ^ 0xd1b54a32d192ed03)
    }
    pub fn next(&mut self) -> u64 {
        // splitmix64
        self.0 = self.0.wrapping_add(0x9e3779b97f4a7c15);
        let mut z = self.0;
        z = (z ^ (z >> 30)).wrapping_mul(0xbf58476d1ce4e5b9);
        z = (z ^ (z >> 27)).wrapping_mul(0x94d049bb133111eb);
        z ^ (z >> 31)
    }
    pub fn below(&mut self, n: u64) -> u64 {
        if n == 0 {
            0
        } else {
            self.next() % n
        }
    }
    pub fn pick<'a, T>(&mut self, xs: &'a [T]) -> &'a T {
        &xs[self.below(xs.len() as u64) as usize]
    }
}

const DICT: &[&str] = &[
    "fn", "let", "var", "const", "override", "struct", "return", "if", "else", "loop", "for",
    "while", "switch", "case", "default", "break", "continue", "continuing", "discard", "alias",
    "@vertex", "@fragment", "@compute", "@group(0)", "@binding(0)", "@location(0)",
    "@builtin(position)", "@builtin(vertex_index)", "@workgroup_size(1)", "@id(0)", "@size(16)",
    "@align(16)", "@interpolate(flat)", "@invariant", "@must_use", "f32", "i32", "u32", "f64",
    "f16", "bool", "vec2<f32>", "vec3<f32>", "vec4<f32>", "vec3<i32>", "vec4<u32>", "mat4x4<f32>",
    "mat2x3<f32>", "array<f32, 4>", "array<f32>", "atomic<u32>", "ptr<function, f32>",
    "texture_2d<f32>", "texture_storage_2d<rgba8unorm, write>", "texture_depth_2d", "sampler",
    "sampler_comparison", "binding_array<texture_2d<f32>, 4>", "acceleration_structure",
    "var<uniform>", "var<storage, read_write>", "var<storage>", "var<push_constant>",
    "var<private>", "var<workgroup>", "(", ")", "{", "}", "[", "]", "<", ">", ";", ":", ",", ".",
    "->", "=", "==", "+", "-", "*", "/", "%", "&", "|", "^", "!", "~", "&&", "||", "<<", ">>",
    "+=", "_", "0", "1", "-1", "1u", "1i", "1.0", "1.0f", "1h", "1lf", "1li", "0x7fffffff",
    "4294967295", "4294967296", "18446744073709551616", "1e39", "1e-46", "0x1p128", "true",
    "false", "/*", "*/", "//", "\"", "'", "\\", "#", "$", "`", "?", "enable f16;",
    "requires readonly_and_readwrite_storage_textures;", "diagnostic(off, derivative_uniformity);",
    "const_assert true;", "const_assert false;", "textureSample", "textureLoad", "arrayLength",
    "atomicAdd", "workgroupBarrier()", "bitcast<f32>", "select", "in", "dyn", "box", "self",
];

const INJECT: &[&str] = &[
    "\u{0}", "\u{1}", "\u{7}", "\u{b}", "\u{c}", "\r", "\r\n", "\u{85}", "\u{2028}", "\u{2029}",
    "\u{feff}", "\u{200b}", "\u{200d}", "\u{202e}", "é", "ß", "Δ", "变量", "𝓍", "😀", "\u{10ffff}",
    "\u{301}", "\u{e000}", "\t", " ", "\u{a0}", "ǅ", "ﬁ", "İ", "ı", "\u{7f}", "\u{1b}[31m",
];

const TYPE_SWAPS: &[(&str, &str)] = &[
    ("f32", "i32"),
    ("f32", "u32"),
    ("f32", "f64"),
    ("f32", "f16"),
    ("f32", "bool"),
    ("i32", "u32"),
    ("u32", "i32"),
    ("vec4", "vec3"),
    ("vec3", "vec4"),
    ("vec2", "vec4"),
    ("vec3", "vec2"),
    ("mat4x4", "mat3x3"),
    ("mat4x4", "mat4x3"),
    ("uniform", "storage"),
    ("storage", "uniform"),
    ("read_write", "read"),
    ("read", "read_write"),
    ("write", "read_write"),
    ("@vertex", "@fragment"),
    ("@fragment", "@vertex"),
    ("@fragment", "@compute"),
    ("@compute", "@vertex"),
    ("position", "frag_depth"),
    ("vertex_index", "instance_index"),
    ("texture_2d", "texture_3d"),
    ("texture_2d", "texture_cube"),
    ("texture_2d", "texture_multisampled_2d"),
    ("sampler", "sampler_comparison"),
    ("rgba8unorm", "r32float"),
    ("var", "let"),
    ("let", "var"),
    ("const", "override"),
    ("override", "const"),
    ("location", "builtin"),
    ("group", "binding"),
];

fn char_boundary(s: &str, mut i: usize) -> usize {
    if i > s.len() {
        i = s.len();
    }
    while !s.is_char_boundary(i) {
        i -= 1;
    }
    i
}

/// Crude tokeniser: identifier/number runs, whitespace runs, single other chars. Byte ranges.
fn tokens(s: &str) -> Vec<(usize, usize)> {
    let mut out = Vec::new();
    let mut it = s.char_indices().peekable();
    while let Some((i, c)) = it.next() {
        let class = |c: char| {
            if c.is_alphanumeric() || c == '_' {
                1
            } else if c.is_whitespace() {
                2
            } else {
                0
            }
        };
        let k = class(c);
        let mut end = i + c.len_utf8();
        if k != 0 {
            while let Some(&(j, d)) = it.peek() {
                if class(d) == k {
                    end = j + d.len_utf8();
                    it.next();
                } else {
                    break;
                }
            }
        }
        if k != 2 {
            out.push((i, end));
        }
    }
    out
}

fn find_all(s: &str, pat: &str) -> Vec<usize> {
    s.match_indices(pat).map(|(i, _)| i).collect()
}

pub fn mutate(rng: &mut Rng, src: &str, other: &str) -> (String, &'static str) {
    let n = src.len();
    let kind = match rng.below(26) {
        k @ 0..=15 => k,
        16..=20 => 11,
        21 | 22 => 13,
        23 => 14,
        _ => 15,
    };
    match kind {
        0 => {
            let i = char_boundary(src, rng.below(n as u64 + 1) as usize);
            (src[..i].to_string(), "truncate")
        }
        1 => {
            let a = char_boundary(src, rng.below(n as u64 + 1) as usize);
            let len = 1 + rng.below(12) as usize;
            let b = char_boundary(src, (a + len).min(n));
            (format!("{}{}", &src[..a], &src[b..]), "delete_range")
        }
        2 => {
            let a = char_boundary(src, rng.below(n as u64 + 1) as usize);
            let len = 1 + rng.below(40) as usize;
            let b = char_boundary(src, (a + len).min(n));
            (format!("{}{}{}", &src[..b], &src[a..b], &src[b..]), "duplicate_range")
        }
        3 => {
            let mut cuts: Vec<usize> = (0..4)
                .map(|_| char_boundary(src, rng.below(n as u64 + 1) as usize))
                .collect();
            cuts.sort();
            let (a, b, c, d) = (cuts[0], cuts[1], cuts[2], cuts[3]);
            (
                format!("{}{}{}{}{}", &src[..a], &src[c..d], &src[b..c], &src[a..b], &src[d..]),
                "swap_ranges",
            )
        }
        4 | 5 => {
            let t = tokens(src);
            if t.is_empty() {
                return (src.to_string(), "noop");
            }
            let (a, b) = *rng.pick(&t);
            if kind == 4 {
                (format!("{}{}", &src[..a], &src[b..]), "delete_token")
            } else {
                (format!("{} {}{}", &src[..b], &src[a..b], &src[b..]), "duplicate_token")
            }
        }
        6 => {
            let t = tokens(src);
            if t.len() < 2 {
                return (src.to_string(), "noop");
            }
            let i = rng.below(t.len() as u64 - 1) as usize;
            let j = i + 1 + rng.below((t.len() - i - 1).min(6) as u64) as usize;
            let (a, b) = t[i];
            let (c, d) = t[j];
            (
                format!("{}{}{}{}{}", &src[..a], &src[c..d], &src[b..c], &src[a..b], &src[d..]),
                "swap_tokens",
            )
        }
        7 | 8 => {
            let t = tokens(src);
            if t.is_empty() {
                return (src.to_string(), "noop");
            }
            let (a, b) = *rng.pick(&t);
            let w = rng.pick(DICT);
            if kind == 7 {
                (format!("{}{}{}", &src[..a], w, &src[b..]), "replace_token")
            } else {
                (format!("{} {} {}", &src[..a], w, &src[a..]), "insert_token")
            }
        }
        9 => {
            let a = char_boundary(src, rng.below(n as u64 + 1) as usize);
            let w = rng.pick(INJECT);
            (format!("{}{}{}", &src[..a], w, &src[a..]), "inject_unicode")
        }
        10 => {
            let a = char_boundary(src, rng.below(n as u64 + 1) as usize);
            let m = other.len();
            let b = char_boundary(other, rng.below(m as u64 + 1) as usize);
            if rng.below(2) == 0 {
                (format!("{}{}", &src[..a], &other[b..]), "splice_tail")
            } else {
                let c = char_boundary(other, (b + 1 + rng.below(200) as usize).min(m));
                (format!("{}{}{}", &src[..a], &other[b..c], &src[a..]), "splice_insert")
            }
        }
        11 | 12 => {
            let mut from_to = *rng.pick(TYPE_SWAPS);
            let mut hits = find_all(src, from_to.0);
            for _ in 0..8 {
                if !hits.is_empty() {
                    break;
                }
                from_to = *rng.pick(TYPE_SWAPS);
                hits = find_all(src, from_to.0);
            }
            let (from, to) = from_to;
            if hits.is_empty() {
                return (src.to_string(), "noop");
            }
            let a = *rng.pick(&hits);
            (
                format!("{}{}{}", &src[..a], to, &src[a + from.len()..]),
                "swap_word",
            )
        }
        13 => {
            // change a number inside an attribute or anywhere
            let t = tokens(src);
            let nums: Vec<_> = t
                .iter()
                .filter(|(a, _)| src.as_bytes()[*a].is_ascii_digit())
                .collect();
            if nums.is_empty() {
                return (src.to_string(), "noop");
            }
            let (a, b) = **rng.pick(&nums);
            let w = *rng.pick(&[
                "0", "1", "2", "3", "7", "8", "15", "16", "17", "255", "256", "65535", "65536",
                "2147483647", "2147483648", "4294967295", "4294967296", "0x80000000", "1e10",
                "0.0", "1u", "1i", "99999999999999999999",
            ]);
            (format!("{}{}{}", &src[..a], w, &src[b..]), "swap_number")
        }
        14 => {
            let lines: Vec<&str> = src.split_inclusive('\n').collect();
            if lines.len() < 2 {
                return (src.to_string(), "noop");
            }
            let i = rng.below(lines.len() as u64) as usize;
            let mut s = String::new();
            for (k, l) in lines.iter().enumerate() {
                if k != i {
                    s.push_str(l);
                }
            }
            (s, "delete_line")
        }
        _ => {
            let lines: Vec<&str> = src.split_inclusive('\n').collect();
            if lines.len() < 2 {
                return (src.to_string(), "noop");
            }
            let i = rng.below(lines.len() as u64) as usize;
            let j = rng.below(lines.len() as u64) as usize;
            let mut s = String::new();
            for (k, l) in lines.iter().enumerate() {
                s.push_str(l);
                if k == j {
                    s.push_str(lines[i]);
                    if !lines[i].ends_with('\n') {
                        s.push('\n');
                    }
                }
            }
            (s, "duplicate_line")
        }
    }
}

fn guarded<T>(f: impl FnOnce() -> T) -> Result<T, String> {
    std::panic::catch_unwind(std::panic::AssertUnwindSafe(f)).map_err(|_| take_panic_msg())
}

struct ToolOutcome {
    v: Value,
    text: Option<String>,
    parse_diag: Option<String>,
}

fn call_tool(source: &str, val: Option<&str>, derive_bits: u64) -> ToolOutcome {
    // the same derive switches / representation for the validation-off and the validation-on
    // call: only the validation setting differs between the two
    let mv = ["rust", "glam", "nalgebra"][((derive_bits >> 4) % 3) as usize];
    let mut opt = json!({
        "bv": derive_bits & 1 != 0, "bh": derive_bits & 2 != 0, "en": derive_bits & 4 != 0,
        "se": derive_bits & 8 != 0, "mv": mv,
    });
    if let Some(v) = val {
        opt["val"] = json!(v);
    }
    let options: WriteOptions = crate::options_from_json(&opt);
    let r = guarded(|| create_shader_module_embedded(source, options));
    match r {
        Err(p) => ToolOutcome {
            v: json!({"r": "panic", "panic": p}),
            text: None,
            parse_diag: None,
        },
        Ok(Ok(t)) => ToolOutcome {
            v: json!({"r": "ok", "sha": hash_hex(t.as_bytes())}),
            text: Some(t),
            parse_diag: None,
        },
        Ok(Err(e)) => {
            let kind = match &e {
                CreateModuleError::NonConsecutiveBindGroups => "NonConsecutiveBindGroups".to_string(),
                CreateModuleError::DuplicateBinding { binding } => {
                    format!("DuplicateBinding:{binding}")
                }
                CreateModuleError::ParseError { .. } => "ParseError".to_string(),
                CreateModuleError::ValidationError { .. } => "ValidationError".to_string(),
                _ => "Other".to_string(),
            };
            let mut v = json!({"r": "err", "kind": kind});
            // Every rendering route must work without panicking.
            let mut render_panics = Vec::new();
            let disp = guarded(|| format!("{e}"));
            if let Err(p) = &disp {
                render_panics.push(format!("Display: {p}"));
            }
            let d1 = guarded(|| e.emit_to_string(source));
            if let Err(p) = &d1 {
                render_panics.push(format!("emit_to_string: {p}"));
            }
            let d2 = guarded(|| e.emit_to_string_with_path(source, "dir/shader.wgsl"));
            if let Err(p) = &d2 {
                render_panics.push(format!("emit_to_string_with_path: {p}"));
            }
            if let Ok(s) = &d1 {
                v["diag_len"] = json!(s.len());
            }
            v["render_panics"] = json!(render_panics);
            ToolOutcome {
                v,
                text: None,
                parse_diag: d1.ok(),
            }
        }
    }
}

fn caps_of(variant: &str) -> naga::valid::Capabilities {
    match variant {
        "none" => naga::valid::Capabilities::empty(),
        "default" => naga::valid::Capabilities::default(),
        v if v.starts_with("bits:") => {
            naga::valid::Capabilities::from_bits_truncate(v[5..].parse().unwrap_or(0))
        }
        _ => naga::valid::Capabilities::all(),
    }
}

pub fn examine(source: &str, caps_variant: &str) -> Value {
    examine_with(source, caps_variant, 0)
}

pub fn examine_with(source: &str, caps_variant: &str, derive_bits: u64) -> Value {
    // reference: naga directly
    let parsed = guarded(|| naga::front::wgsl::parse_str(source));
    let mut rec = json!({});
    let mut ref_diag: Option<String> = None;
    let mut ref_valid: Option<bool> = None;
    match parsed {
        Err(p) => {
            rec["ref_parse"] = json!("panic");
            rec["ref_panic"] = json!(p);
        }
        Ok(Err(e)) => {
            rec["ref_parse"] = json!("err");
            match guarded(|| e.emit_to_string(source)) {
                Ok(s) => ref_diag = Some(s),
                Err(p) => rec["ref_diag_panic"] = json!(p),
            }
        }
        Ok(Ok(module)) => {
            rec["ref_parse"] = json!("ok");
            let caps = caps_of(caps_variant);
            let r = guarded(|| {
                naga::valid::Validator::new(naga::valid::ValidationFlags::all(), caps)
                    .validate(&module)
                    .map(|_| ())
                    .map_err(|e| format!("{:?}", e.as_inner()).chars().take(120).collect::<String>())
            });
            match r {
                Err(p) => {
                    rec["ref_valid"] = json!("panic");
                    rec["ref_panic"] = json!(p);
                }
                Ok(Ok(())) => {
                    rec["ref_valid"] = json!("ok");
                    ref_valid = Some(true);
                }
                Ok(Err(s)) => {
                    rec["ref_valid"] = json!("err");
                    rec["ref_valid_err"] = json!(s);
                    ref_valid = Some(false);
                }
            }
        }
    }
    let _ = ref_valid;
    let off = call_tool(source, None, derive_bits);
    let on = call_tool(source, Some(caps_variant), derive_bits);
    rec["derive_bits"] = json!(derive_bits);
    rec["off"] = off.v.clone();
    rec["on"] = on.v.clone();
    rec["caps"] = json!(caps_variant);
    if let Some(rd) = &ref_diag {
        rec["off_diag_eq_ref"] = json!(off.parse_diag.as_deref() == Some(rd.as_str()));
        rec["on_diag_eq_ref"] = json!(on.parse_diag.as_deref() == Some(rd.as_str()));
    }
    if let (Some(a), Some(b)) = (&off.text, &on.text) {
        rec["text_eq"] = json!(a == b);
    }
    rec
}

pub fn mode_fuzz(args: &[String]) -> i32 {
    let corpus_dir = &args[0];
    let out_path = &args[1];
    let mut seed = 1u64;
    let mut count = 1000u64;
    let mut shard = (0u64, 1u64);
    let mut i = 2;
    while i < args.len() {
        match args[i].as_str() {
            "--seed" => {
                seed = args[i + 1].parse().unwrap();
                i += 1;
            }
            "--count" => {
                count = args[i + 1].parse().unwrap();
                i += 1;
            }
            "--shard" => {
                let (a, b) = args[i + 1].split_once('/').unwrap();
                shard = (a.parse().unwrap(), b.parse().unwrap());
                i += 1;
            }
            x => panic!("unknown arg {x}"),
        }
        i += 1;
    }
    let mut corpus: Vec<(String, String)> = Vec::new();
    let mut names: Vec<_> = std::fs::read_dir(corpus_dir)
        .expect("corpus dir")
        .filter_map(|e| e.ok())
        .map(|e| e.path())
        .filter(|p| p.extension().map(|e| e == "wgsl").unwrap_or(false))
        .collect();
    names.sort();
    for p in names {
        if let Ok(s) = std::fs::read_to_string(&p) {
            corpus.push((p.file_name().unwrap().to_string_lossy().to_string(), s));
        }
    }
    if corpus.is_empty() {
        eprintln!("empty corpus");
        return 2;
    }
    let mut w = BufWriter::new(std::fs::File::create(out_path).expect("create out"));
    // unmutated corpus first (shard 0 only): they must all pass
    if shard.0 == 0 {
        for (name, src) in &corpus {
            let mut rec = examine(src, "all");
            rec["i"] = json!(-1);
            rec["parent"] = json!(name);
            rec["muts"] = json!([]);
            rec["len"] = json!(src.len());
            writeln!(w, "{rec}").unwrap();
        }
    }
    // every corpus shader under every capability set that lacks exactly one capability, and
    // under every single capability: the gate must follow naga's verdict for that very set
    {
        let all = naga::valid::Capabilities::all().bits();
        let mut n = 0u64;
        for (name, src) in &corpus {
            for bit in 0..32u32 {
                if all & (1 << bit) == 0 {
                    continue;
                }
                for bits in [all & !(1u32 << bit), 1u32 << bit] {
                    n += 1;
                    if n % shard.1 != shard.0 {
                        continue;
                    }
                    let caps = format!("bits:{bits}");
                    let mut rec = examine_with(src, &caps, 0);
                    rec["i"] = json!(-2);
                    rec["parent"] = json!(name);
                    rec["muts"] = json!(["capability-sweep"]);
                    rec["len"] = json!(src.len());
                    if rec["ref_valid"] == "err" && rec["on"]["kind"] != "ValidationError" {
                        rec["source"] = json!(src);
                    }
                    writeln!(w, "{rec}").unwrap();
                }
            }
        }
    }
    for k in 0..count {
        if k % shard.1 != shard.0 {
            continue;
        }
        // the k-th mutant is a pure function of (seed, k): shards and replays agree
        let mut rng = Rng::new(seed.wrapping_mul(0x2545f4914f6cdd1d).wrapping_add(k));
        let pi = rng.below(corpus.len() as u64) as usize;
        let oi = rng.below(corpus.len() as u64) as usize;
        let depth = match rng.below(8) {
            0..=3 => 1,
            4 | 5 => 2,
            6 => 3,
            _ => 4,
        };
        let mut cur = corpus[pi].1.clone();
        let mut muts = Vec::new();
        for _ in 0..depth {
            let (next, name) = mutate(&mut rng, &cur, &corpus[oi].1);
            cur = next;
            muts.push(name);
        }
        let caps_owned;
        let caps = match rng.below(8) {
            0 => "none",
            1 => "default",
            2 | 3 => {
                // a random subset of the capability bits
                let all = naga::valid::Capabilities::all().bits();
                let mut bits = rng.next() as u32 & all;
                if rng.below(2) == 0 {
                    bits = all & !(1u32 << rng.below(32));
                }
                caps_owned = format!("bits:{bits}");
                caps_owned.as_str()
            }
            _ => "all",
        };
        let derive_bits = if rng.below(3) == 0 { rng.below(48) } else { 0 };
        let mut rec = examine_with(&cur, caps, derive_bits);
        rec["i"] = json!(k);
        rec["parent"] = json!(corpus[pi].0);
        rec["muts"] = json!(muts);
        rec["len"] = json!(cur.len());
        rec["src_sha"] = json!(hash_hex(cur.as_bytes()));
        // keep the text of everything that is not the plain "parse error, correctly reported" case
        let boring = rec["ref_parse"] == "err"
            && rec["off"]["kind"] == "ParseError"
            && rec["on"]["kind"] == "ParseError"
            && rec["off_diag_eq_ref"] == true
            && rec["on_diag_eq_ref"] == true
            && rec["off"]["render_panics"].as_array().map(|a| a.is_empty()).unwrap_or(false)
            && rec["on"]["render_panics"].as_array().map(|a| a.is_empty()).unwrap_or(false);
        let interesting = !boring
            && (rec["off"]["r"] == "panic"
                || rec["on"]["r"] == "panic"
                || rec["ref_parse"] == "panic"
                || rec["ref_valid"] == "panic"
                || rec["ref_parse"] == "err"
                || (rec["ref_valid"] == "err" && rec["on"]["kind"] != "ValidationError")
                || rec["text_eq"] == false
                || (k % 997 == 0));
        if interesting {
            rec["source"] = json!(cur);
        }
        writeln!(w, "{rec}").unwrap();
    }
    w.flush().unwrap();
    0
}
