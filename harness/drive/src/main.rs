//! drive: runs the generator under test (the wgsl_to_wgpu crate of $VERIF_REPO, feature
//! `verif`) on job lists and records what it returned.  It never judges: every verdict is
//! taken by the offline checkers from the event lines written here.
//!
//! Modes
//!   drive run   <jobs.jsonl> <results.jsonl> [--threads N] [--shuffle SEED] [--markers]
//!   drive fuzz  <corpus_dir> <out.jsonl> --seed S --count N [--shard i/n]
//!   drive selftest
use std::cell::RefCell;
use std::io::{BufRead, BufWriter, Write};
use std::panic::{catch_unwind, AssertUnwindSafe};
use std::sync::atomic::{AtomicU64, Ordering};
use std::sync::{Arc, Mutex};

use serde_json::{json, Value};
use wgsl_to_wgpu::{
    create_shader_module, create_shader_module_embedded, CreateModuleError, MatrixVectorTypes,
    ValidationOptions, WgslCapabilities, WriteOptions,
};

mod fuzz;
mod inventory;

thread_local! {
    static PANIC_MSG: RefCell<Option<String>> = const { RefCell::new(None) };
}

pub fn install_panic_hook() {
    std::panic::set_hook(Box::new(|info| {
        let loc = info
            .location()
            .map(|l| format!("{}:{}", l.file(), l.line()))
            .unwrap_or_default();
        let msg = if let Some(s) = info.payload().downcast_ref::<&str>() {
            s.to_string()
        } else if let Some(s) = info.payload().downcast_ref::<String>() {
            s.clone()
        } else {
            "<non-string panic payload>".to_string()
        };
        PANIC_MSG.with(|p| *p.borrow_mut() = Some(format!("{msg} @ {loc}")));
    }));
}

pub fn take_panic_msg() -> String {
    PANIC_MSG
        .with(|p| p.borrow_mut().take())
        .unwrap_or_else(|| "<no message>".into())
}

/// 128 bits of deterministic, process-independent hash as hex (FNV-1a 64 with two offsets).
pub fn hash_hex(bytes: &[u8]) -> String {
    let mut a: u64 = 0xcbf29ce484222325;
    let mut b: u64 = 0x84222325cbf29ce4;
    for &x in bytes {
        a ^= x as u64;
        a = a.wrapping_mul(0x100000001b3);
        b = b.wrapping_add(x as u64 + 0x9e3779b97f4a7c15);
        b ^= b >> 29;
        b = b.wrapping_mul(0xbf58476d1ce4e5b9);
    }
    format!("{a:016x}{b:016x}{:08x}", bytes.len())
}

pub fn thread_cpu_ns() -> u64 {
    let mut ts = libc::timespec {
        tv_sec: 0,
        tv_nsec: 0,
    };
    unsafe { libc::clock_gettime(libc::CLOCK_THREAD_CPUTIME_ID, &mut ts) };
    ts.tv_sec as u64 * 1_000_000_000 + ts.tv_nsec as u64
}

pub fn options_from_json(o: &Value) -> WriteOptions {
    let b = |k: &str| o.get(k).and_then(|v| v.as_bool()).unwrap_or(false);
    let mv = match o.get("mv").and_then(|v| v.as_str()).unwrap_or("rust") {
        "glam" => MatrixVectorTypes::Glam,
        "nalgebra" => MatrixVectorTypes::Nalgebra,
        _ => MatrixVectorTypes::Rust,
    };
    let validate = match o.get("val").and_then(|v| v.as_str()) {
        None | Some("off") => None,
        Some("none") => Some(ValidationOptions {
            capabilities: WgslCapabilities::empty(),
        }),
        Some("default") => Some(ValidationOptions {
            capabilities: WgslCapabilities::default(),
        }),
        Some(b) if b.starts_with("bits:") => Some(ValidationOptions {
            capabilities: WgslCapabilities::from_bits_truncate(b[5..].parse().unwrap_or(0)),
        }),
        Some(_) => Some(ValidationOptions::default()),
    };
    WriteOptions {
        derive_bytemuck_vertex: b("bv"),
        derive_bytemuck_host_shareable: b("bh"),
        derive_encase_host_shareable: b("en"),
        derive_serde: b("se"),
        matrix_vector_types: mv,
        rustfmt: b("fmt"),
        validate,
    }
}

struct AttrCommas;
impl syn::visit_mut::VisitMut for AttrCommas {
    fn visit_macro_mut(&mut self, m: &mut syn::Macro) {
        let mut toks: Vec<proc_macro2::TokenTree> = m.tokens.clone().into_iter().collect();
        if let Some(proc_macro2::TokenTree::Punct(p)) = toks.last() {
            if p.as_char() == ',' {
                toks.pop();
                m.tokens = toks.into_iter().collect();
            }
        }
    }
    fn visit_attribute_mut(&mut self, a: &mut syn::Attribute) {
        // `#[derive(A, B,)]` and `#[derive(A, B)]` are the same program: rustfmt adds the
        // trailing comma when it wraps a long list, and attribute arguments are raw tokens
        // for syn, so normalise them here
        if let syn::Meta::List(l) = &mut a.meta {
            let mut toks: Vec<proc_macro2::TokenTree> = l.tokens.clone().into_iter().collect();
            if let Some(proc_macro2::TokenTree::Punct(p)) = toks.last() {
                if p.as_char() == ',' {
                    toks.pop();
                    l.tokens = toks.into_iter().collect();
                }
            }
        }
    }
}

fn flatten(ts: proc_macro2::TokenStream, out: &mut String) {
    for t in ts {
        match t {
            proc_macro2::TokenTree::Group(g) => {
                let (o, c) = match g.delimiter() {
                    proc_macro2::Delimiter::Parenthesis => ("(", ")"),
                    proc_macro2::Delimiter::Brace => ("{", "}"),
                    proc_macro2::Delimiter::Bracket => ("[", "]"),
                    proc_macro2::Delimiter::None => ("", ""),
                };
                out.push_str(o);
                out.push(' ');
                flatten(g.stream(), out);
                out.push_str(c);
                out.push(' ');
            }
            other => {
                out.push_str(&other.to_string());
                out.push(' ');
            }
        }
    }
}

/// Canonical form: "the same Rust program token for token".  The file goes through syn and
/// prettyplease (which normalises trailing commas and parentheses where the grammar makes them
/// optional), trailing commas at the end of attribute / macro argument lists are dropped, and
/// the printed text is re-tokenised so that only the token sequence counts (inside macro
/// invocations such as `assert!(..)` the printer keeps the original token spacing).
pub fn canon(text: &str) -> Option<String> {
    let mut f = syn::parse_file(text).ok()?;
    syn::visit_mut::VisitMut::visit_file_mut(&mut AttrCommas, &mut f);
    let printed = prettyplease::unparse(&f);
    let ts: proc_macro2::TokenStream = printed.parse().ok()?;
    let mut out = String::new();
    flatten(ts, &mut out);
    Some(out)
}

fn guarded<T>(f: impl FnOnce() -> T) -> Result<T, String> {
    catch_unwind(AssertUnwindSafe(f)).map_err(|_| take_panic_msg())
}

pub fn describe_err(e: &CreateModuleError, source: &str, want_diag: bool) -> Value {
    let (kind, payload) = match e {
        CreateModuleError::NonConsecutiveBindGroups => ("NonConsecutiveBindGroups", Value::Null),
        CreateModuleError::DuplicateBinding { binding } => ("DuplicateBinding", json!(binding)),
        CreateModuleError::ParseError { .. } => ("ParseError", Value::Null),
        CreateModuleError::ValidationError { .. } => ("ValidationError", Value::Null),
        _ => ("Other", Value::Null),
    };
    let mut v = json!({"err_kind": kind, "err_payload": payload});
    v["display"] = match guarded(|| format!("{e}")) {
        Ok(s) => json!(s),
        Err(p) => json!({ "panic": p }),
    };
    if want_diag {
        let mut d = serde_json::Map::new();
        d.insert(
            "emit_to_string".into(),
            match guarded(|| e.emit_to_string(source)) {
                Ok(s) => json!(s),
                Err(p) => json!({ "panic": p }),
            },
        );
        d.insert(
            "emit_to_string_with_path".into(),
            match guarded(|| e.emit_to_string_with_path(source, "dir/shader.wgsl")) {
                Ok(s) => json!(s),
                Err(p) => json!({ "panic": p }),
            },
        );
        d.insert(
            "emit_to_string_with_non_utf8_path".into(),
            match guarded(|| {
                use std::os::unix::ffi::OsStrExt;
                let p = std::path::Path::new(std::ffi::OsStr::from_bytes(b"dir/sh\xE4der \xFF.wgsl"));
                e.emit_to_string_with_path(source, p)
            }) {
                Ok(s) => json!(s.len()),
                Err(p) => json!({ "panic": p }),
            },
        );
        v["diag"] = Value::Object(d);
    }
    v
}

/// What naga itself says about the same text (reference for C17 and for the accept filter).
pub fn naga_reference(source: &str, want_diag: bool) -> Value {
    let parsed = guarded(|| naga::front::wgsl::parse_str(source));
    match parsed {
        Err(p) => json!({"parse": "panic", "panic": p}),
        Ok(Err(e)) => {
            let mut v = json!({"parse": "err"});
            if want_diag {
                v["parse_diag"] = match guarded(|| e.emit_to_string(source)) {
                    Ok(s) => json!(s),
                    Err(p) => json!({ "panic": p }),
                };
                v["parse_diag_path"] =
                    match guarded(|| e.emit_to_string_with_path(source, "dir/shader.wgsl")) {
                        Ok(s) => json!(s),
                        Err(p) => json!({ "panic": p }),
                    };
            }
            v
        }
        Ok(Ok(module)) => {
            let mut v = json!({"parse": "ok"});
            v["ir"] = ir_size(&module);
            for (name, caps) in [
                ("all", naga::valid::Capabilities::all()),
                ("none", naga::valid::Capabilities::empty()),
                ("default", naga::valid::Capabilities::default()),
            ] {
                let r = guarded(|| {
                    naga::valid::Validator::new(naga::valid::ValidationFlags::all(), caps)
                        .validate(&module)
                });
                v[format!("valid_{name}")] = match r {
                    Err(p) => json!({ "panic": p }),
                    Ok(Ok(_)) => json!("ok"),
                    Ok(Err(e)) => {
                        if want_diag {
                            match guarded(|| e.emit_to_string(source)) {
                                Ok(s) => json!({ "err": s }),
                                Err(p) => json!({"err": "", "diag_panic": p}),
                            }
                        } else {
                            json!({"err": ""})
                        }
                    }
                };
            }
            v
        }
    }
}

fn count_block(b: &naga::Block) -> (u64, u64) {
    // (statements, blocks) counted recursively
    let mut st = 0u64;
    let mut bl = 1u64;
    for s in b.iter() {
        st += 1;
        let mut add = |x: &naga::Block| {
            let (a, c) = count_block(x);
            st += a;
            bl += c;
        };
        match s {
            naga::Statement::Block(x) => add(x),
            naga::Statement::If { accept, reject, .. } => {
                add(accept);
                add(reject);
            }
            naga::Statement::Switch { cases, .. } => {
                for c in cases {
                    add(&c.body);
                }
            }
            naga::Statement::Loop {
                body, continuing, ..
            } => {
                add(body);
                add(continuing);
            }
            _ => {}
        }
    }
    (st, bl)
}

/// Size of the naga IR of a module (independent of the generator): the yardstick for C20.
pub fn ir_size(m: &naga::Module) -> Value {
    let mut statements = 0u64;
    let mut blocks = 0u64;
    let mut expressions = 0u64;
    let mut each = |f: &naga::Function| {
        let (a, b) = count_block(&f.body);
        statements += a;
        blocks += b;
        expressions += f.expressions.len() as u64;
    };
    for (_, f) in m.functions.iter() {
        each(f);
    }
    for e in &m.entry_points {
        each(&e.function);
    }
    let members: usize = m
        .types
        .iter()
        .map(|(_, t)| match &t.inner {
            naga::TypeInner::Struct { members, .. } => members.len(),
            _ => 0,
        })
        .sum();
    json!({
        "members": members,
        "functions": m.functions.len(), "entry_points": m.entry_points.len(),
        "statements": statements, "blocks": blocks, "expressions": expressions,
        "types": m.types.len(), "globals": m.global_variables.len(),
        "constants": m.constants.len(), "overrides": m.overrides.len(),
    })
}

static SEQ: AtomicU64 = AtomicU64::new(0);

/// What a call could leave behind in the process: descriptors, children, working directory,
/// environment, SIGPIPE disposition, umask.
pub struct ProcState {
    fds: usize,
    children: Vec<u64>,
    cwd: String,
    env: String,
    sigpipe: usize,
    umask: u32,
}

pub fn process_state() -> ProcState {
    let fds = std::fs::read_dir("/proc/self/fd").map(|d| d.count()).unwrap_or(0);
    let mut children = Vec::new();
    if let Ok(tasks) = std::fs::read_dir("/proc/self/task") {
        for t in tasks.flatten() {
            if let Ok(s) = std::fs::read_to_string(t.path().join("children")) {
                children.extend(s.split_whitespace().filter_map(|x| x.parse::<u64>().ok()));
            }
        }
    }
    children.sort();
    let cwd = std::env::current_dir().map(|p| p.display().to_string()).unwrap_or_default();
    let mut ev: Vec<String> = std::env::vars_os()
        .map(|(k, v)| format!("{}={}", k.to_string_lossy(), v.to_string_lossy()))
        .collect();
    ev.sort();
    let env = hash_hex(ev.join("\n").as_bytes());
    let sigpipe = unsafe {
        let mut old: libc::sigaction = std::mem::zeroed();
        libc::sigaction(libc::SIGPIPE, std::ptr::null(), &mut old);
        old.sa_sigaction
    };
    let umask = unsafe {
        let m = libc::umask(0o022);
        libc::umask(m);
        m
    };
    ProcState { fds, children, cwd, env, sigpipe, umask: umask as u32 }
}

fn marker(s: &str) {
    // A write to fd -1 fails with EBADF but is visible to strace: brackets for the syscall monitor.
    unsafe { libc::write(-1, s.as_ptr() as *const libc::c_void, s.len()) };
}

pub fn run_job(job: &Value, markers: bool) -> Value {
    let id = job["id"].clone();
    let source: String = if let Some(s) = job.get("source").and_then(|s| s.as_str()) {
        s.to_string()
    } else {
        let p = job["wgsl"].as_str().expect("job needs source or wgsl");
        match std::fs::read(p) {
            Ok(b) => match String::from_utf8(b) {
                Ok(s) => s,
                Err(_) => return json!({"id": id, "result": "harness_error", "why": "not utf8"}),
            },
            Err(e) => {
                return json!({"id": id, "result": "harness_error", "why": format!("read {p}: {e}")})
            }
        }
    };
    let options = options_from_json(&job["opt"]);
    let include_path = job.get("include_path").and_then(|s| s.as_str());
    let want_diag = job.get("diag").and_then(|v| v.as_bool()).unwrap_or(false);
    let repeat = job.get("repeat").and_then(|v| v.as_u64()).unwrap_or(1).max(1);

    let mut out = json!({"id": id});
    // process-wide environment changes requested by the workload BEFORE the call (sequences such
    // as "formatter missing for one call, back for the next"); single-threaded runs only
    if let Some(envs) = job.get("set_env").and_then(|v| v.as_object()) {
        for (k, v) in envs {
            match v.as_str() {
                Some(val) => std::env::set_var(k, val),
                None => std::env::remove_var(k),
            }
        }
    }
    let want_state = job.get("state").and_then(|v| v.as_bool()).unwrap_or(false);
    let state_before = if want_state { Some(process_state()) } else { None };
    let mut last: Option<Result<Result<String, CreateModuleError>, String>> = None;
    let mut hashes = Vec::new();
    #[allow(unused_assignments)]
    let (mut cpu_ns, mut wall_ns, mut steps) = (0u64, 0u128, [0u64; 3]);
    for _ in 0..repeat {
        wgsl_to_wgpu::verif::reset();
        let t0 = thread_cpu_ns();
        let w0 = std::time::Instant::now();
        if markers {
            marker("VERIF-BEGIN");
        }
        let r = catch_unwind(AssertUnwindSafe(|| match include_path {
            Some(p) => create_shader_module(&source, p, options),
            None => create_shader_module_embedded(&source, options),
        }))
        .map_err(|_| take_panic_msg());
        if markers {
            marker("VERIF-END");
        }
        cpu_ns = thread_cpu_ns() - t0;
        wall_ns = w0.elapsed().as_nanos();
        steps = wgsl_to_wgpu::verif::steps();
        if let Ok(Ok(t)) = &r {
            hashes.push(hash_hex(t.as_bytes()));
        }
        last = Some(r);
    }
    if let Some(b) = state_before {
        let a = process_state();
        out["state"] = json!({
            "fds_before": b.fds, "fds_after": a.fds, "children_after": a.children,
            "children_before": b.children,
            "cwd_changed": a.cwd != b.cwd, "env_changed": a.env != b.env,
            "sigpipe_changed": a.sigpipe != b.sigpipe, "umask_changed": a.umask != b.umask,
        });
    }
    if let Some(src2) = job.get("inplace").and_then(|v| v.as_str()) {
        // the caller reuses ITS buffer: same address, same length, other text
        let mut buf = source.clone();
        let first = catch_unwind(AssertUnwindSafe(|| match include_path {
            Some(p) => create_shader_module(&buf, p, options),
            None => create_shader_module_embedded(&buf, options),
        }));
        let _ = first;
        if src2.len() == buf.len() {
            unsafe { buf.as_bytes_mut().copy_from_slice(src2.as_bytes()) };
            let second = catch_unwind(AssertUnwindSafe(|| match include_path {
                Some(p) => create_shader_module(&buf, p, options),
                None => create_shader_module_embedded(&buf, options),
            }))
            .map_err(|_| take_panic_msg());
            let fresh_src = src2.to_string();
            let fresh = std::thread::spawn(move || {
                catch_unwind(AssertUnwindSafe(|| match None::<&str> {
                    Some(p) => create_shader_module(&fresh_src, p, options),
                    None => create_shader_module_embedded(&fresh_src, options),
                }))
                .map_err(|_| take_panic_msg())
            });
            let fresh = if include_path.is_some() {
                // include variant: compare with a direct call on a fresh buffer in this thread
                let f2 = src2.to_string();
                drop(fresh);
                catch_unwind(AssertUnwindSafe(|| {
                    create_shader_module(&f2, include_path.unwrap(), options)
                }))
                .map_err(|_| take_panic_msg())
            } else {
                fresh.join().unwrap_or(Err("fresh thread died".into()))
            };
            let sha = |r: &Result<Result<String, CreateModuleError>, String>| match r {
                Ok(Ok(t)) => hash_hex(t.as_bytes()),
                Ok(Err(e)) => format!("ERR:{e}"),
                Err(p) => format!("PANIC:{p}"),
            };
            out["inplace"] = json!({"second": sha(&second), "fresh": sha(&fresh)});
        } else {
            out["inplace"] = json!({"error": "length differs"});
        }
    }
    out["seq"] = json!(SEQ.fetch_add(1, Ordering::SeqCst));
    out["tid"] = json!(format!("{:?}", std::thread::current().id()));
    out["cpu_ns"] = json!(cpu_ns);
    out["wall_ns"] = json!(wall_ns as u64);
    out["steps"] = json!(steps);
    match last.unwrap() {
        Err(p) => {
            out["result"] = json!("panic");
            out["panic"] = json!(p);
        }
        Ok(Err(e)) => {
            out["result"] = json!("err");
            let d = describe_err(&e, &source, want_diag);
            for (k, v) in d.as_object().unwrap() {
                out[k] = v.clone();
            }
        }
        Ok(Ok(text)) => {
            out["result"] = json!("ok");
            out["text_sha"] = json!(hash_hex(text.as_bytes()));
            out["text_len"] = json!(text.len());
            if repeat > 1 {
                out["repeat_shas"] = json!(hashes);
            }
            if job.get("canon").and_then(|v| v.as_bool()).unwrap_or(false) {
                match canon(&text) {
                    Some(c) => {
                        if job.get("canon_text").and_then(|v| v.as_bool()).unwrap_or(false) {
                            out["canon_text"] = json!(c);
                        }
                        out["canon_sha"] = json!(hash_hex(c.as_bytes()))
                    }
                    None => out["canon_sha"] = Value::Null,
                }
            }
            if let Some(p) = job.get("out").and_then(|v| v.as_str()) {
                if let Some(dir) = std::path::Path::new(p).parent() {
                    let _ = std::fs::create_dir_all(dir);
                }
                if let Err(e) = std::fs::write(p, text.as_bytes()) {
                    out["write_error"] = json!(format!("{e}"));
                }
            }
            if job.get("canon_nosrc").and_then(|v| v.as_bool()).unwrap_or(false) {
                out["canon_nosrc_sha"] = match inventory::canon_without_source(&text) {
                    Some(c) => json!(hash_hex(c.as_bytes())),
                    None => Value::Null,
                };
            }
            if job.get("proj").and_then(|v| v.as_bool()).unwrap_or(false) {
                if let Some((a, b)) = inventory::projections(&text) {
                    out["proj_derives_sha"] = json!(hash_hex(a.as_bytes()));
                    out["proj_types_sha"] = json!(hash_hex(b.as_bytes()));
                }
            }
            if job.get("inv").and_then(|v| v.as_bool()).unwrap_or(false) {
                out["inv"] = inventory::inventory(&text);
            }
            if job.get("text").and_then(|v| v.as_bool()).unwrap_or(false) {
                out["text"] = json!(text);
            }
        }
    }
    if job.get("ref").and_then(|v| v.as_bool()).unwrap_or(false) {
        out["ref"] = naga_reference(&source, want_diag);
    }
    out
}

fn mode_run(args: &[String]) -> i32 {
    let jobs_path = &args[0];
    let out_path = &args[1];
    let mut threads = 1usize;
    let mut shuffle: Option<u64> = None;
    let mut markers = false;
    let mut i = 2;
    while i < args.len() {
        match args[i].as_str() {
            "--threads" => {
                threads = args[i + 1].parse().unwrap();
                i += 1;
            }
            "--shuffle" => {
                shuffle = Some(args[i + 1].parse().unwrap());
                i += 1;
            }
            "--markers" => markers = true,
            x => panic!("unknown arg {x}"),
        }
        i += 1;
    }
    let f = std::fs::File::open(jobs_path).expect("open jobs");
    let mut jobs: Vec<Value> = std::io::BufReader::new(f)
        .lines()
        .map(|l| l.unwrap())
        .filter(|l| !l.trim().is_empty())
        .map(|l| serde_json::from_str(&l).expect("job json"))
        .collect();
    if let Some(seed) = shuffle {
        let mut rng = fuzz::Rng::new(seed);
        for i in (1..jobs.len()).rev() {
            let j = rng.below(i as u64 + 1) as usize;
            jobs.swap(i, j);
        }
    }
    let out = Arc::new(Mutex::new(BufWriter::new(
        std::fs::File::create(out_path).expect("create results"),
    )));
    if markers {
        // Warm-up call so that one-time lazy initialisation (allocator, TLS) is outside the brackets.
        let _ = create_shader_module_embedded(
            "@compute @workgroup_size(1) fn main() {}",
            WriteOptions::default(),
        );
    }
    if threads <= 1 {
        for j in &jobs {
            let r = run_job(j, markers);
            let mut w = out.lock().unwrap();
            writeln!(w, "{}", r).unwrap();
        }
    } else {
        let jobs = Arc::new(jobs);
        let next = Arc::new(AtomicU64::new(0));
        let mut hs = Vec::new();
        for _ in 0..threads {
            let jobs = jobs.clone();
            let next = next.clone();
            let out = out.clone();
            hs.push(
                std::thread::Builder::new()
                    .stack_size(64 << 20)
                    .spawn(move || loop {
                        let k = next.fetch_add(1, Ordering::SeqCst) as usize;
                        if k >= jobs.len() {
                            break;
                        }
                        let r = run_job(&jobs[k], false);
                        let mut w = out.lock().unwrap();
                        writeln!(w, "{}", r).unwrap();
                    })
                    .unwrap(),
            );
        }
        for h in hs {
            h.join().unwrap();
        }
    }
    out.lock().unwrap().flush().unwrap();
    0
}

fn main() {
    install_panic_hook();
    let args: Vec<String> = std::env::args().collect();
    if args.len() < 2 {
        eprintln!("usage: drive run|fuzz|selftest ...");
        std::process::exit(2);
    }
    // Deep recursion in naga / the generator on hostile inputs must surface as our verdicts, not
    // as a stack overflow of the 8 MiB main thread: run everything on a big-stack thread.
    let rest: Vec<String> = args[2..].to_vec();
    let mode = args[1].clone();
    let h = std::thread::Builder::new()
        .stack_size(256 << 20)
        .spawn(move || match mode.as_str() {
            "run" => mode_run(&rest),
            "fuzz" => fuzz::mode_fuzz(&rest),
            "selftest" => {
                let r = run_job(
                    &json!({"id": "selftest", "source": "@compute @workgroup_size(1) fn main() {}", "opt": {}, "ref": true}),
                    false,
                );
                println!("{r}");
                0
            }
            _ => {
                eprintln!("unknown mode");
                2
            }
        })
        .unwrap();
    let code = h.join().unwrap_or(3);
    std::process::exit(code);
}
